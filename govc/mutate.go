package main

// `govc mutate`: enumerates small syntactic mutants of the functions under contract (developer tool for the
// mutation sweep of DESIGN.md H.9). Modular verification notices a change inside a function F only through F's own
// contract, so a mutant of F is "killed" exactly when `govc verify -fn F` reports a failure on the mutated tree; a
// mutant that survives verification AND the repository's tests is either equivalent or shows a clause that is missing.
//
// Output: one JSON line per mutant: {"id","func","file","line","op","desc"}, and the mutated file contents written to
// <out>/<id>.go (the whole file; the driver copies it over the original in a scratch copy of the repository).

import (
	"bytes"
	"encoding/json"
	"flag"
	"fmt"
	"go/ast"
	"go/parser"
	"go/printer"
	"go/token"
	"os"
	"path/filepath"
	"sort"
	"strings"
)

type mutantRec struct {
	ID   string `json:"id"`
	Func string `json:"func"`
	File string `json:"file"`
	Line int    `json:"line"`
	Op   string `json:"op"`
	Desc string `json:"desc"`
}

var swapOps = map[token.Token]token.Token{
	token.EQL: token.NEQ, token.NEQ: token.EQL,
	token.LSS: token.LEQ, token.LEQ: token.LSS,
	token.GTR: token.GEQ, token.GEQ: token.GTR,
	token.LAND: token.LOR, token.LOR: token.LAND,
	token.ADD: token.SUB, token.SUB: token.ADD,
}

func cmdMutate(args []string) {
	fs := flag.NewFlagSet("mutate", flag.ExitOnError)
	repo := fs.String("repo", "/repo", "repository")
	out := fs.String("out", "/var/tmp/mutants", "output directory")
	perFunc := fs.Int("per-func", 8, "at most this many mutants per function (spread over the operators)")
	only := fs.String("fn", "", "only functions whose key contains this")
	fs.Parse(args)
	eng, err := loadEngine(*repo)
	if err != nil {
		fmt.Fprintln(os.Stderr, err)
		os.Exit(2)
	}
	os.MkdirAll(*out, 0o755)
	enc := json.NewEncoder(os.Stdout)
	n := 0
	for _, key := range sortedKeys(eng.cs.Funcs) {
		c := eng.cs.Funcs[key]
		fn := eng.funcs[key]
		if c.Iface || c.Assumed != "" || c.Inline || fn == nil || fn.Blocks == nil || fn.Parent() != nil || fn.Syntax() == nil {
			continue
		}
		if *only != "" && !strings.Contains(key, *only) {
			continue
		}
		decl, ok := fn.Syntax().(*ast.FuncDecl)
		if !ok || decl.Body == nil {
			continue
		}
		pos := eng.prog.Fset.Position(decl.Pos())
		rel, err := filepath.Rel(*repo, pos.Filename)
		if err != nil || strings.HasSuffix(rel, "_test.go") {
			continue
		}
		src, err := os.ReadFile(pos.Filename)
		if err != nil {
			continue
		}
		// enumerate mutation points on a fresh parse of the file (so that each mutant edits its own AST)
		points := mutationPoints(src, pos.Filename, decl.Name.Name, pos.Line)
		// spread: round-robin over operator kinds, deterministic
		byOp := map[string][]int{}
		var ops []string
		for i, p := range points {
			if _, ok := byOp[p.op]; !ok {
				ops = append(ops, p.op)
			}
			byOp[p.op] = append(byOp[p.op], i)
		}
		sort.Strings(ops)
		var pick []int
		for round := 0; len(pick) < *perFunc; round++ {
			added := false
			for _, op := range ops {
				if round < len(byOp[op]) && len(pick) < *perFunc {
					// take them spread over the function: first, last, middle, ...
					idxs := byOp[op]
					j := spreadIndex(round, len(idxs))
					pick = append(pick, idxs[j])
					added = true
				}
			}
			if !added {
				break
			}
		}
		sort.Ints(pick)
		seen := map[int]bool{}
		for _, pi := range pick {
			if seen[pi] {
				continue
			}
			seen[pi] = true
			content, desc, line, ok := applyMutation(src, pos.Filename, decl.Name.Name, pos.Line, pi)
			if !ok {
				continue
			}
			n++
			id := fmt.Sprintf("m%04d", n)
			os.WriteFile(filepath.Join(*out, id+".go"), content, 0o644)
			enc.Encode(mutantRec{ID: id, Func: key, File: filepath.ToSlash(rel), Line: line, Op: points[pi].op, Desc: desc})
		}
	}
}

func spreadIndex(round, n int) int {
	switch round % 3 {
	case 0:
		return (round / 3) % n
	case 1:
		return (n - 1 - round/3 + n) % n
	}
	return (n/2 + round/3) % n
}

type mpoint struct {
	op string
}

// findFunc returns the declaration of the function named name that starts at line.
func findFunc(f *ast.File, fset *token.FileSet, name string, line int) *ast.FuncDecl {
	for _, d := range f.Decls {
		if fd, ok := d.(*ast.FuncDecl); ok && fd.Name.Name == name && fset.Position(fd.Pos()).Line == line {
			return fd
		}
	}
	return nil
}

// walkPoints visits the mutation points of a function body in a fixed order and calls visit(i, kind, apply) for each;
// apply performs the edit in place and returns a description.
func walkPoints(fset *token.FileSet, fd *ast.FuncDecl, visit func(kind string, line int, apply func() string)) {
	ast.Inspect(fd.Body, func(n ast.Node) bool {
		switch x := n.(type) {
		case *ast.FuncLit:
			return false // function literals are verified under their own contracts (or inlined): leave them alone
		case *ast.IfStmt:
			if x.Cond != nil {
				visit("negate-if", fset.Position(x.Pos()).Line, func() string {
					old := nodeString(fset, x.Cond)
					x.Cond = &ast.UnaryExpr{Op: token.NOT, X: &ast.ParenExpr{X: x.Cond}}
					return "if " + old + " -> if !(" + old + ")"
				})
			}
		case *ast.BinaryExpr:
			if to, ok := swapOps[x.Op]; ok {
				if x.Op == token.ADD || x.Op == token.SUB {
					// string concatenation has no '-': only swap when an operand is an integer literal
					if !isIntLit(x.X) && !isIntLit(x.Y) {
						return true
					}
				}
				visit("swap-"+x.Op.String(), fset.Position(x.OpPos).Line, func() string {
					old := nodeString(fset, x)
					x.Op = to
					return old + " -> " + nodeString(fset, x)
				})
			}
		case *ast.BlockStmt:
			for i, st := range x.List {
				i, st := i, st
				switch s := st.(type) {
				case *ast.ExprStmt:
					if _, ok := s.X.(*ast.CallExpr); ok {
						visit("delete-call", fset.Position(s.Pos()).Line, func() string {
							x.List[i] = &ast.EmptyStmt{Semicolon: s.Pos(), Implicit: true}
							return "deleted: " + nodeString(fset, s)
						})
					}
				case *ast.AssignStmt:
					if s.Tok == token.ASSIGN && len(s.Lhs) == 1 {
						visit("delete-assign", fset.Position(s.Pos()).Line, func() string {
							x.List[i] = &ast.AssignStmt{Lhs: []ast.Expr{ast.NewIdent("_")}, Tok: token.ASSIGN, Rhs: []ast.Expr{s.Lhs[0]}}
							return "deleted: " + nodeString(fset, s)
						})
					}
				case *ast.IncDecStmt:
					visit("delete-incdec", fset.Position(s.Pos()).Line, func() string {
						x.List[i] = &ast.EmptyStmt{Semicolon: s.Pos(), Implicit: true}
						return "deleted: " + nodeString(fset, s)
					})
				}
			}
		case *ast.ReturnStmt:
			for ri, r := range x.Results {
				ri, r := ri, r
				if id, ok := r.(*ast.Ident); ok && (id.Name == "err" || strings.HasSuffix(id.Name, "Err")) && ri == len(x.Results)-1 {
					visit("return-nil-error", fset.Position(x.Pos()).Line, func() string {
						old := nodeString(fset, x)
						x.Results[ri] = ast.NewIdent("nil")
						return old + " -> " + nodeString(fset, x)
					})
				}
				if id, ok := r.(*ast.Ident); ok && (id.Name == "true" || id.Name == "false") {
					visit("flip-bool", fset.Position(x.Pos()).Line, func() string {
						old := nodeString(fset, x)
						if id.Name == "true" {
							x.Results[ri] = ast.NewIdent("false")
						} else {
							x.Results[ri] = ast.NewIdent("true")
						}
						return old + " -> " + nodeString(fset, x)
					})
				}
			}
		case *ast.BasicLit:
			if x.Kind == token.INT && (x.Value == "0" || x.Value == "1") {
				visit("int-literal", fset.Position(x.Pos()).Line, func() string {
					old := x.Value
					if x.Value == "0" {
						x.Value = "1"
					} else {
						x.Value = "0"
					}
					return "literal " + old + " -> " + x.Value
				})
			}
		}
		return true
	})
}

func isIntLit(e ast.Expr) bool {
	b, ok := e.(*ast.BasicLit)
	return ok && b.Kind == token.INT
}

func nodeString(fset *token.FileSet, n ast.Node) string {
	var b bytes.Buffer
	_ = printer.Fprint(&b, fset, n)
	s := strings.Join(strings.Fields(b.String()), " ")
	if len(s) > 140 {
		s = s[:140] + "..."
	}
	return s
}

func mutationPoints(src []byte, filename, name string, line int) []mpoint {
	fset := token.NewFileSet()
	f, err := parser.ParseFile(fset, filename, src, parser.ParseComments)
	if err != nil {
		return nil
	}
	fd := findFunc(f, fset, name, line)
	if fd == nil {
		return nil
	}
	var out []mpoint
	walkPoints(fset, fd, func(kind string, _ int, _ func() string) {
		out = append(out, mpoint{kind})
	})
	return out
}

// applyMutation re-parses the file and applies the idx-th mutation point.
func applyMutation(src []byte, filename, name string, line, idx int) ([]byte, string, int, bool) {
	fset := token.NewFileSet()
	f, err := parser.ParseFile(fset, filename, src, parser.ParseComments)
	if err != nil {
		return nil, "", 0, false
	}
	fd := findFunc(f, fset, name, line)
	if fd == nil {
		return nil, "", 0, false
	}
	i := 0
	desc := ""
	mline := 0
	walkPoints(fset, fd, func(k string, l int, apply func() string) {
		if i == idx {
			mline = l
			desc = apply()
		}
		i++
	})
	if desc == "" {
		return nil, "", 0, false
	}
	var b bytes.Buffer
	if err := printer.Fprint(&b, fset, f); err != nil {
		return nil, "", 0, false
	}
	return b.Bytes(), desc, mline, true
}
