package main

// Rename-robust local names. Loop invariants and contracts of function literals refer to local variables by name.
// A refactor that only renames a local would otherwise turn into "unknown identifier" and be reported as a
// violation. `govc locals` records, for every function under contract, the ordered list (name, type) of its named
// locals and captured variables on the unchanged tree (/verif/locals.json, committed). At verification time, when the
// current function has the same number of named locals with the same types in the same order, a recorded name
// that no longer exists is bound to the local now at its position. Any other difference disables the fallback.

import (
	"encoding/json"
	"flag"
	"fmt"
	"go/types"
	"os"
	"sort"

	"golang.org/x/tools/go/ssa"
)

type localSig struct {
	Name string `json:"name"`
	Type string `json:"type"`
}

type localsFile map[string][]localSig // function key -> locals (free variables first, then Allocs in order)

var recordedLocals localsFile

func loadRecordedLocals() {
	recordedLocals = localsFile{}
	p := os.Getenv("GOVC_LOCALS")
	if p == "" {
		p = "/verif/locals.json"
	}
	b, err := os.ReadFile(p)
	if err != nil {
		return
	}
	_ = json.Unmarshal(b, &recordedLocals)
}

func fnLocals(fn *ssa.Function) []localSig {
	var out []localSig
	q := func(p *types.Package) string { return p.Path() }
	for _, fv := range fn.FreeVars {
		out = append(out, localSig{fv.Name(), "free " + types.TypeString(fv.Type(), q)})
	}
	for _, b := range fn.Blocks {
		for _, in := range b.Instrs {
			if a, ok := in.(*ssa.Alloc); ok && a.Comment != "" {
				out = append(out, localSig{a.Comment, types.TypeString(a.Type(), q)})
			}
		}
	}
	return out
}

// localAliases: recorded name -> current name, for locals of fn that were only renamed.
func (e *Engine) localAliases(fn *ssa.Function) map[string]string {
	if recordedLocals == nil {
		loadRecordedLocals()
	}
	rec, ok := recordedLocals[e.fnKey[fn]]
	if !ok {
		return nil
	}
	cur := fnLocals(fn)
	if len(cur) != len(rec) {
		return nil
	}
	out := map[string]string{}
	for i := range cur {
		if cur[i].Type != rec[i].Type {
			return nil
		}
		if cur[i].Name != rec[i].Name {
			out[rec[i].Name] = cur[i].Name
		}
	}
	return out
}

// ---- renamed struct fields ----
// Contracts also name struct fields (d.offset, fs.cached). The field lists of the repository's struct types are recorded
// next to the locals ("struct:<pkg>.<Type>"). When a contract names a field that no longer exists and the struct still
// has the same number of fields with the same types in the same order, the name is bound to the field now at the
// recorded position: a refactor that only renames a field is not reported. A changed type, an added or a removed
// field disables the fallback for that struct and the contract fails to resolve, as before.

func structFieldSigs(st *types.Struct) []localSig {
	q := func(p *types.Package) string { return p.Path() }
	var out []localSig
	for i := 0; i < st.NumFields(); i++ {
		out = append(out, localSig{st.Field(i).Name(), types.TypeString(st.Field(i).Type(), q)})
	}
	return out
}

func structKey(n *types.Named) string {
	if n.Obj().Pkg() == nil {
		return "struct:" + n.Obj().Name()
	}
	return "struct:" + n.Obj().Pkg().Path() + "." + n.Obj().Name()
}

// fieldAlias: the current name of a field recorded under oldName in struct type t (or "" when there is none).
func fieldAlias(t types.Type, oldName string) string {
	if recordedLocals == nil {
		loadRecordedLocals()
	}
	t = types.Unalias(t)
	if p, ok := t.Underlying().(*types.Pointer); ok {
		t = types.Unalias(p.Elem())
	}
	n, ok := t.(*types.Named)
	if !ok {
		return ""
	}
	st, ok := n.Underlying().(*types.Struct)
	if !ok {
		return ""
	}
	rec, ok := recordedLocals[structKey(n)]
	if !ok {
		return ""
	}
	cur := structFieldSigs(st)
	if len(cur) != len(rec) {
		return ""
	}
	hit := ""
	for i := range cur {
		if cur[i].Type != rec[i].Type {
			return ""
		}
		if rec[i].Name == oldName && cur[i].Name != oldName {
			hit = cur[i].Name
		}
	}
	return hit
}

func cmdLocals(args []string) {
	fs := flag.NewFlagSet("locals", flag.ExitOnError)
	repo := fs.String("repo", "/repo", "repository")
	out := fs.String("out", "/verif/locals.json", "output file")
	fs.Parse(args)
	eng, err := loadEngine(*repo)
	if err != nil {
		fmt.Fprintln(os.Stderr, "load:", err)
		os.Exit(2)
	}
	res := localsFile{}
	for key, c := range eng.cs.Funcs {
		fn := eng.funcs[key]
		if fn == nil || fn.Blocks == nil || c.Iface || c.Assumed != "" {
			continue
		}
		if len(c.Loops) == 0 && len(c.Ranges) == 0 && len(fn.FreeVars) == 0 && len(c.Callsites) == 0 {
			continue
		}
		res[key] = fnLocals(fn)
	}
	// the field lists of the repository's struct types
	for _, p := range eng.pkgs {
		if p.Types == nil {
			continue
		}
		sc := p.Types.Scope()
		for _, name := range sc.Names() {
			tn, ok := sc.Lookup(name).(*types.TypeName)
			if !ok {
				continue
			}
			n, ok := types.Unalias(tn.Type()).(*types.Named)
			if !ok {
				continue
			}
			if st, ok := n.Underlying().(*types.Struct); ok && st.NumFields() > 0 {
				res[structKey(n)] = structFieldSigs(st)
			}
		}
	}
	keys := make([]string, 0, len(res))
	for k := range res {
		keys = append(keys, k)
	}
	sort.Strings(keys)
	b, _ := json.MarshalIndent(res, "", " ")
	if err := os.WriteFile(*out, b, 0o644); err != nil {
		fmt.Fprintln(os.Stderr, err)
		os.Exit(2)
	}
	fmt.Printf("recorded the named locals of %d functions in %s\n", len(keys), *out)
}
