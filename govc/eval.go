package main

// Evaluation of contract expressions (Go syntax + pseudo-functions) to symbolic values.

import (
	"fmt"
	"go/ast"
	"go/constant"
	"go/token"
	"go/types"
	"math/big"
	"strconv"
	"strings"
)

type tv struct {
	V Value
	T types.Type // nil for untyped constants / pseudo values
}

type nilV struct{}

// setV is a ghost set of keys: membership predicate.
type setV struct {
	Dom  *Term // Array K Bool
	KeyT types.Type
}

// mapV is a ghost map (sync.Map / Go map): domain + per-component value arrays.
type mapV struct {
	Name string // base name of the arrays
	Addr *Term  // address of the map object
	KeyT types.Type
	ValT types.Type
}

type evalError struct{ msg string }

func evalFail(format string, a ...interface{}) { panic(evalError{fmt.Sprintf(format, a...)}) }

// curResTypes: result types of the tracked callees of the function being verified (set by verifyFunc).
var curResTypes map[string][]types.Type

type Env struct {
	eng    *Engine
	st     *State
	old    heapSnap
	oldTop *Term
	vars   map[string]tv
	pkg    *types.Package
	useOld bool
	depth  int
	quant  int
	facts  *[]*Term
}

// noteFacts records well-typedness facts of a value read from the heap.
func (e *Env) noteFacts(t types.Type, v Value) {
	if e.quant > 0 || e.facts == nil || t == nil {
		return
	}
	var top *Term
	if e.st != nil || e.useOld {
		top = e.top()
	}
	*e.facts = append(*e.facts, typeFacts(t, v, top)...)
}

func (e *Env) child() *Env {
	n := *e
	n.vars = make(map[string]tv, len(e.vars)+2)
	for k, v := range e.vars {
		n.vars[k] = v
	}
	return &n
}

func (e *Env) h() map[string]*Term {
	if e.useOld {
		if e.old == nil {
			evalFail("old() used where no pre-state exists")
		}
		return e.old
	}
	return e.st.heap
}

func (e *Env) top() *Term {
	if e.useOld {
		return e.oldTop
	}
	return e.st.heaptop
}

func (e *Env) evalBool(x ast.Expr) *Term {
	r := e.eval(x)
	t, ok := r.V.(*Term)
	if !ok || t.Sort.Kind != SBool {
		evalFail("expected a boolean expression, got %T", r.V)
	}
	return t
}

func (e *Env) evalInt(x ast.Expr) *Term {
	r := e.eval(x)
	t, ok := r.V.(*Term)
	if !ok || t.Sort.Kind != SInt {
		evalFail("expected an integer expression")
	}
	return t
}

func (e *Env) lookupPkg(name string) *types.Package {
	if strings.HasPrefix(name, "std") && len(name) > 3 {
		// stdos, stdpath ...: the standard-library package when a repository package shadows its name
		if p := e.eng.typesPkg(name[3:]); p != nil {
			return p
		}
	}
	if e.pkg != nil {
		if e.pkg.Name() == name {
			return e.pkg
		}
		for _, p := range e.pkg.Imports() {
			if p.Name() == name {
				return p
			}
		}
	}
	return e.eng.pkgByName(name)
}

func (e *Env) resolveType(x ast.Expr) types.Type {
	switch t := x.(type) {
	case *ast.Ident:
		if o := types.Universe.Lookup(t.Name); o != nil {
			if tn, ok := o.(*types.TypeName); ok {
				return tn.Type()
			}
		}
		if e.pkg != nil {
			if o := e.pkg.Scope().Lookup(t.Name); o != nil {
				if tn, ok := o.(*types.TypeName); ok {
					return tn.Type()
				}
			}
		}
		return nil
	case *ast.StarExpr:
		if b := e.resolveType(t.X); b != nil {
			return types.NewPointer(b)
		}
		return nil
	case *ast.ParenExpr:
		return e.resolveType(t.X)
	case *ast.SelectorExpr:
		if id, ok := t.X.(*ast.Ident); ok {
			if _, isVar := e.vars[id.Name]; isVar {
				return nil
			}
			if p := e.lookupPkg(id.Name); p != nil {
				if o := p.Scope().Lookup(t.Sel.Name); o != nil {
					if tn, ok := o.(*types.TypeName); ok {
						return tn.Type()
					}
				}
			}
		}
		return nil
	case *ast.ArrayType:
		if t.Len == nil {
			if b := e.resolveType(t.Elt); b != nil {
				return types.NewSlice(b)
			}
		}
		return nil
	case *ast.InterfaceType:
		return types.NewInterfaceType(nil, nil)
	}
	return nil
}

func constTerm(v constant.Value, t types.Type) tv {
	switch v.Kind() {
	case constant.Bool:
		return tv{BoolLit(constant.BoolVal(v)), t}
	case constant.String:
		return tv{StrLit(constant.StringVal(v)), t}
	case constant.Int:
		bi, _ := new(big.Int).SetString(v.ExactString(), 10)
		if t != nil && isFileMode(t) {
			return tv{BVLit(bi.Uint64(), 32), t}
		}
		return tv{BigLit(bi), t}
	}
	evalFail("unsupported constant %v", v)
	return tv{}
}

func (e *Env) objValue(o types.Object) tv {
	switch x := o.(type) {
	case *types.Const:
		t := x.Type()
		if b, ok := t.(*types.Basic); ok && b.Info()&types.IsUntyped != 0 {
			t = nil
		}
		return constTerm(x.Val(), t)
	case *types.Var:
		return tv{e.eng.globalValue(x), x.Type()}
	case *types.Nil:
		return tv{nilV{}, nil}
	}
	evalFail("cannot use %s in a contract", o.Name())
	return tv{}
}

func (e *Env) eval(x ast.Expr) tv {
	switch n := x.(type) {
	case *ast.ParenExpr:
		return e.eval(n.X)
	case *ast.BasicLit:
		switch n.Kind {
		case token.INT:
			bi, ok := new(big.Int).SetString(n.Value, 0)
			if !ok {
				evalFail("bad int literal %s", n.Value)
			}
			return tv{BigLit(bi), nil}
		case token.STRING:
			s, err := strconv.Unquote(n.Value)
			if err != nil {
				evalFail("bad string literal")
			}
			return tv{StrLit(s), nil}
		case token.CHAR:
			s, err := strconv.Unquote(n.Value)
			if err != nil || len(s) == 0 {
				evalFail("bad char literal")
			}
			r := []rune(s)[0]
			return tv{IntLit(int64(r)), nil}
		}
		evalFail("unsupported literal %s", n.Value)
	case *ast.Ident:
		if v, ok := e.vars[n.Name]; ok {
			// a variable of map type denotes the map it points to
			if v.T != nil {
				if mt, isMap := types.Unalias(v.T).Underlying().(*types.Map); isMap {
					if mp, isT := v.V.(*Term); isT {
						return tv{mapV{Name: mapArrBase(mt), Addr: mp, KeyT: mt.Key(), ValT: mt.Elem()}, v.T}
					}
				}
			}
			return v
		}
		switch n.Name {
		case "nil":
			return tv{nilV{}, nil}
		case "true":
			return tv{True, nil}
		case "false":
			return tv{False, nil}
		}
		if m, ok := e.eng.cs.Macros[n.Name]; ok && len(m.Params) == 0 {
			return e.expandMacro(m, nil)
		}
		if e.pkg != nil {
			if o := e.pkg.Scope().Lookup(n.Name); o != nil {
				return e.objValue(o)
			}
		}
		if o := types.Universe.Lookup(n.Name); o != nil {
			return e.objValue(o)
		}
		evalFail("unknown identifier %s", n.Name)
	case *ast.SelectorExpr:
		if id, ok := n.X.(*ast.Ident); ok {
			if _, isVar := e.vars[id.Name]; !isVar {
				if p := e.lookupPkg(id.Name); p != nil {
					o := p.Scope().Lookup(n.Sel.Name)
					if o == nil {
						evalFail("%s.%s not found", id.Name, n.Sel.Name)
					}
					return e.objValue(o)
				}
			}
		}
		return e.selectField(e.eval(n.X), n.Sel.Name)
	case *ast.StarExpr:
		p := e.eval(n.X)
		pt, ok := types.Unalias(p.T).Underlying().(*types.Pointer)
		if !ok {
			evalFail("* of non-pointer")
		}
		return tv{e.loadVia(p.V, pt.Elem()), pt.Elem()}
	case *ast.UnaryExpr:
		a := e.eval(n.X)
		at, _ := a.V.(*Term)
		switch n.Op {
		case token.NOT:
			return tv{Not(at), a.T}
		case token.SUB:
			return tv{Neg(at), a.T}
		case token.XOR:
			if at.Sort.Kind == SBV {
				return tv{BVNot(at), a.T}
			}
		}
		evalFail("unsupported unary operator %s", n.Op)
	case *ast.BinaryExpr:
		return e.binary(n)
	case *ast.IndexExpr:
		base := e.eval(n.X)
		switch b := base.V.(type) {
		case SliceV:
			i := e.evalInt(n.Index)
			return tv{readElem(e.h(), b.Elem, b.Ref, SIdx(b.Off, i)), b.Elem}
		case *Term:
			if b.Sort.Kind == SString {
				i := e.evalInt(n.Index)
				return tv{mk("str.to_code", IntS, StrAt(b, i)), types.Typ[types.Byte]}
			}
			if b.Sort.Kind == SArray {
				k := e.eval(n.Index)
				return tv{Select(b, k.V.(*Term)), nil}
			}
		case mapV:
			k := e.eval(n.Index)
			return tv{e.mapGet(b, k), b.ValT}
		case setV:
			k := e.eval(n.Index)
			return tv{Select(b.Dom, e.keyTerm(k)), nil}
		}
		evalFail("cannot index %T", base.V)
	case *ast.SliceExpr:
		base := e.eval(n.X)
		switch b := base.V.(type) {
		case SliceV:
			lo, hi := IntLit(0), b.Len
			if n.Low != nil {
				lo = e.evalInt(n.Low)
			}
			if n.High != nil {
				hi = e.evalInt(n.High)
			}
			return tv{SliceV{b.Ref, Add(b.Off, lo), Sub(hi, lo), Sub(b.Cap, lo), b.Elem}, base.T}
		case *Term:
			if b.Sort.Kind == SString {
				lo, hi := IntLit(0), StrLen(b)
				if n.Low != nil {
					lo = e.evalInt(n.Low)
				}
				if n.High != nil {
					hi = e.evalInt(n.High)
				}
				return tv{StrSubstr(b, lo, Sub(hi, lo)), base.T}
			}
		}
		evalFail("cannot slice %T", base.V)
	case *ast.TypeAssertExpr:
		v := e.eval(n.X)
		iv, ok := v.V.(IfaceV)
		if !ok {
			evalFail("type assertion on non-interface")
		}
		t := e.resolveType(n.Type)
		if t == nil {
			evalFail("unknown type in assertion: %s", exprString(n.Type))
		}
		return tv{e.unboxAs(iv, t), t}
	case *ast.CallExpr:
		return e.call(n)
	}
	evalFail("unsupported expression %T", x)
	return tv{}
}

func (e *Env) unboxAs(iv IfaceV, t types.Type) Value {
	if types.IsInterface(t) {
		return iv
	}
	if payloadIsValue(t) {
		return iv.Val
	}
	if isPlainStruct(t) {
		return readStruct(e.h(), t, iv.Val)
	}
	return readPtr(e.h(), t, iv.Val)
}

func (e *Env) loadVia(p Value, t types.Type) Value {
	switch x := p.(type) {
	case *Term:
		if isPlainStruct(t) {
			return readStruct(e.h(), t, x)
		}
		return readPtr(e.h(), t, x)
	case FieldPtr:
		return readField(e.h(), x.Owner, x.Idx, x.Obj)
	}
	evalFail("cannot dereference %T", p)
	return nil
}

// renamedFields: notes for the evidence (a recorded field name bound to the field now at its position).
var renamedFields = map[string]bool{}

func (e *Env) selectField(b tv, name string) tv {
	if b.T == nil {
		evalFail("field %s of untyped value", name)
	}
	obj, path, _ := types.LookupFieldOrMethod(b.T, true, e.pkgOfType(b.T), name)
	fv, ok := obj.(*types.Var)
	if !ok || !fv.IsField() {
		if alias := fieldAlias(b.T, name); alias != "" {
			renamedFields[name+" is now "+alias+" in "+types.TypeString(b.T, nil)] = true
			return e.selectField(b, alias)
		}
		evalFail("no field %s in %s", name, b.T)
	}
	cur, curT := b.V, b.T
	computed := false
	for i, idx := range path {
		computed = false
		// auto-dereference
		if pt, ok := types.Unalias(curT).Underlying().(*types.Pointer); ok {
			owner := namedOf(pt.Elem())
			if owner == nil {
				evalFail("field of pointer to unnamed struct")
			}
			ot, ok := cur.(*Term)
			if !ok {
				evalFail("field access through %T", cur)
			}
			f := structOf(owner).Field(idx)
			if mt, isMap := types.Unalias(f.Type()).Underlying().(*types.Map); isMap {
				mp := readField(e.h(), owner, idx, ot).(*Term)
				if i == len(path)-1 {
					return tv{mapV{Name: mapArrBase(mt), Addr: mp, KeyT: mt.Key(), ValT: mt.Elem()}, f.Type()}
				}
			}
			if isNamed(types.Unalias(f.Type()), "sync", "Map") {
				spec := e.eng.cs.SyncMaps[owner.Obj().Pkg().Path()+"."+owner.Obj().Name()+"."+f.Name()]
				if spec == nil {
					evalFail("no syncmap directive for %s.%s", owner.Obj().Name(), f.Name())
				}
				return tv{e.eng.syncMapV(spec, embAddr(owner, idx, ot)), nil}
			}
			if isPlainStruct(f.Type()) || isOpaqueStruct(f.Type()) {
				// keep as pointer to the embedded struct (a computed address: no type facts)
				computed = true
				cur, curT = embAddr(owner, idx, ot), types.NewPointer(f.Type())
			} else {
				cur, curT = readField(e.h(), owner, idx, ot), f.Type()
			}
			continue
		}
		sv, ok := cur.(StructV)
		if !ok {
			evalFail("field access on %T", cur)
		}
		f := structOf(curT).Field(idx)
		cur, curT = sv.F[idx], f.Type()
	}
	if !computed {
		e.noteFacts(curT, cur)
	}
	return tv{cur, curT}
}

func (e *Env) pkgOfType(t types.Type) *types.Package {
	t = types.Unalias(t)
	if p, ok := t.Underlying().(*types.Pointer); ok {
		t = types.Unalias(p.Elem())
	}
	if n, ok := t.(*types.Named); ok && n.Obj().Pkg() != nil {
		return n.Obj().Pkg()
	}
	return e.pkg
}

func isUntypedInt(a tv) bool {
	t, ok := a.V.(*Term)
	return ok && a.T == nil && t.Op == "int"
}

func coerce(a, b tv) (tv, tv) {
	at, aok := a.V.(*Term)
	bt, bok := b.V.(*Term)
	if aok && bok {
		if at.Sort.Kind == SBV && isUntypedInt(b) {
			return a, tv{BVLit(bt.Int.Uint64(), at.Sort.W), a.T}
		}
		if bt.Sort.Kind == SBV && isUntypedInt(a) {
			return tv{BVLit(at.Int.Uint64(), bt.Sort.W), b.T}, b
		}
	}
	return a, b
}

func valEq(a, b tv) *Term {
	a, b = coerce(a, b)
	if _, ok := a.V.(IfaceV); ok {
		if bt, ok2 := b.V.(*Term); ok2 && b.T != nil && !types.IsInterface(b.T) && payloadIsValue(b.T) {
			b = tv{IfaceV{tagTerm(b.T), bt}, a.T}
		}
	} else if _, ok := b.V.(IfaceV); ok {
		if at, ok2 := a.V.(*Term); ok2 && a.T != nil && !types.IsInterface(a.T) && payloadIsValue(a.T) {
			a = tv{IfaceV{tagTerm(a.T), at}, b.T}
		}
	}
	if _, ok := a.V.(nilV); ok {
		a, b = b, a
	}
	if _, ok := b.V.(nilV); ok {
		switch x := a.V.(type) {
		case *Term:
			return Eq(x, IntLit(0))
		case IfaceV:
			return Eq(x.Tag, IntLit(0))
		case SliceV:
			return Eq(x.Ref, IntLit(0))
		case mapV:
			return Eq(x.Addr, IntLit(0))
		case nilV:
			return True
		}
		evalFail("cannot compare %T with nil", a.V)
	}
	switch x := a.V.(type) {
	case *Term:
		y, ok := b.V.(*Term)
		if !ok {
			evalFail("comparison of scalar with %T", b.V)
		}
		if x.Sort.Kind == SInt && y.Sort.Kind == SInt {
			return binTerm(token.EQL, x, y) // expands masked comparisons (x & C == 0) into bit predicates
		}
		return Eq(x, y)
	case IfaceV:
		y, ok := b.V.(IfaceV)
		if !ok {
			evalFail("comparison of interface with %T", b.V)
		}
		return And(Eq(x.Tag, y.Tag), Eq(x.Val, y.Val))
	case SliceV:
		y, ok := b.V.(SliceV)
		if !ok {
			evalFail("comparison of slice with %T", b.V)
		}
		return And(Eq(x.Ref, y.Ref), Eq(x.Off, y.Off), Eq(x.Len, y.Len), Eq(x.Cap, y.Cap))
	case StructV:
		y, ok := b.V.(StructV)
		if !ok || len(x.F) != len(y.F) {
			evalFail("comparison of struct with %T", b.V)
		}
		st := structOf(x.T)
		var cs []*Term
		for i := range x.F {
			cs = append(cs, valEq(tv{x.F[i], st.Field(i).Type()}, tv{y.F[i], st.Field(i).Type()}))
		}
		return And(cs...)
	}
	evalFail("cannot compare %T", a.V)
	return nil
}

// bitOf expands band(x, C) != 0 into single-bit predicates.
func bandNonZero(t *Term) (*Term, bool) {
	if t.Op == "app" && t.Name == "band" && t.Args[1].IsInt() {
		c := t.Args[1].Int
		var ds []*Term
		for k := 0; k < c.BitLen(); k++ {
			if c.Bit(k) == 1 {
				ds = append(ds, bitTerm(t.Args[0], k))
			}
		}
		return Or(ds...), true
	}
	return nil, false
}

func bitTerm(x *Term, k int) *Term {
	if x.IsInt() {
		return BoolLit(x.Int.Sign() >= 0 && x.Int.Bit(k) == 1)
	}
	return App("bit", BoolS, x, IntLit(int64(k)))
}

func intBand(a, b *Term) *Term {
	if a.IsInt() && b.IsInt() && a.Int.Sign() >= 0 && b.Int.Sign() >= 0 {
		return BigLit(new(big.Int).And(a.Int, b.Int))
	}
	if a.IsInt() {
		a, b = b, a
	}
	return App("band", IntS, a, b)
}

func intBor(a, b *Term) *Term {
	if a.IsInt() && b.IsInt() && a.Int.Sign() >= 0 && b.Int.Sign() >= 0 {
		return BigLit(new(big.Int).Or(a.Int, b.Int))
	}
	return App("bor", IntS, a, b)
}

func binTerm(op token.Token, a, b *Term) *Term {
	if a.Sort.Kind == SBV && b.Sort.Kind == SBV {
		switch op {
		case token.AND:
			return BVOp("bvand", a, b)
		case token.OR:
			return BVOp("bvor", a, b)
		case token.XOR:
			return BVOp("bvxor", a, b)
		case token.AND_NOT:
			return BVOp("bvand", a, BVNot(b))
		case token.EQL:
			return Eq(a, b)
		case token.NEQ:
			return Neq(a, b)
		case token.LSS:
			return mk("bvult", BoolS, a, b)
		case token.LEQ:
			return mk("bvule", BoolS, a, b)
		case token.GTR:
			return mk("bvult", BoolS, b, a)
		case token.GEQ:
			return mk("bvule", BoolS, b, a)
		case token.ADD:
			return mk("bvadd", a.Sort, a, b)
		case token.SUB:
			return mk("bvsub", a.Sort, a, b)
		}
		evalFail("unsupported bit-vector operator %s", op)
	}
	if a.Sort.Kind == SString && b.Sort.Kind == SString {
		switch op {
		case token.ADD:
			return StrConcat(a, b)
		case token.EQL:
			return Eq(a, b)
		case token.NEQ:
			return Neq(a, b)
		case token.LSS:
			return mk("str.<", BoolS, a, b)
		case token.LEQ:
			return mk("str.<=", BoolS, a, b)
		case token.GTR:
			return mk("str.<", BoolS, b, a)
		case token.GEQ:
			return mk("str.<=", BoolS, b, a)
		}
	}
	if a.Sort.Kind == SBool && b.Sort.Kind == SBool {
		switch op {
		case token.LAND:
			return And(a, b)
		case token.LOR:
			return Or(a, b)
		case token.EQL:
			return Eq(a, b)
		case token.NEQ:
			return Neq(a, b)
		}
	}
	if a.Sort.Kind == SInt && b.Sort.Kind == SInt {
		switch op {
		case token.ADD:
			return Add(a, b)
		case token.SUB:
			return Sub(a, b)
		case token.MUL:
			return Mul(a, b)
		case token.QUO:
			return goDiv(a, b)
		case token.REM:
			return goRem(a, b)
		case token.EQL:
			if b.IsInt() && b.Int.Sign() == 0 {
				if r, ok := bandNonZero(a); ok {
					return Not(r)
				}
			}
			return Eq(a, b)
		case token.NEQ:
			if b.IsInt() && b.Int.Sign() == 0 {
				if r, ok := bandNonZero(a); ok {
					return r
				}
			}
			return Neq(a, b)
		case token.LSS:
			return Lt(a, b)
		case token.LEQ:
			return Le(a, b)
		case token.GTR:
			return Gt(a, b)
		case token.GEQ:
			return Ge(a, b)
		case token.AND:
			return intBand(a, b)
		case token.OR:
			return intBor(a, b)
		case token.SHL:
			if a.IsInt() && b.IsInt() {
				return BigLit(new(big.Int).Lsh(a.Int, uint(b.Int.Int64())))
			}
		case token.SHR:
			if a.IsInt() && b.IsInt() {
				return BigLit(new(big.Int).Rsh(a.Int, uint(b.Int.Int64())))
			}
		}
	}
	evalFail("unsupported operator %s on %s/%s", op, a.Sort, b.Sort)
	return nil
}

// Go's truncated division on mathematical integers.
func goDiv(a, b *Term) *Term {
	if a.IsInt() && b.IsInt() && b.Int.Sign() != 0 {
		return BigLit(new(big.Int).Quo(a.Int, b.Int))
	}
	q := mk("div", IntS, mk("abs", IntS, a), mk("abs", IntS, b))
	neg := Neq(Lt(a, IntLit(0)), Lt(b, IntLit(0)))
	return Ite(neg, Neg(q), q)
}

func goRem(a, b *Term) *Term {
	if a.IsInt() && b.IsInt() && b.Int.Sign() != 0 {
		return BigLit(new(big.Int).Rem(a.Int, b.Int))
	}
	return Sub(a, Mul(goDiv(a, b), b))
}

func (e *Env) binary(n *ast.BinaryExpr) tv {
	if n.Op == token.LAND || n.Op == token.LOR {
		a, b := e.evalBool(n.X), e.evalBool(n.Y)
		if n.Op == token.LAND {
			return tv{And(a, b), nil}
		}
		return tv{Or(a, b), nil}
	}
	a, b := e.eval(n.X), e.eval(n.Y)
	if n.Op == token.EQL {
		return tv{valEq(a, b), nil}
	}
	if n.Op == token.NEQ {
		return tv{Not(valEq(a, b)), nil}
	}
	a, b = coerce(a, b)
	at, aok := a.V.(*Term)
	bt, bok := b.V.(*Term)
	if !aok || !bok {
		evalFail("operator %s on %T/%T", n.Op, a.V, b.V)
	}
	rt := a.T
	if rt == nil {
		rt = b.T
	}
	r := binTerm(n.Op, at, bt)
	if r.Sort.Kind == SBool {
		rt = nil
	}
	return tv{r, rt}
}

func (e *Env) keyTerm(k tv) *Term {
	t, ok := k.V.(*Term)
	if !ok {
		evalFail("map key must be a scalar")
	}
	return t
}

func (e *Env) expandMacro(m *Macro, args []tv) tv {
	if len(args) != len(m.Params) {
		evalFail("macro %s expects %d arguments", m.Name, len(m.Params))
	}
	if e.depth > 40 {
		evalFail("macro expansion too deep (recursive spec?) in %s", m.Name)
	}
	c := e.child()
	c.depth = e.depth + 1
	if p := e.eng.typesPkg(m.Pkg); p != nil {
		c.pkg = p
	}
	// macros see only their parameters (hygienic), plus nothing else
	c.vars = map[string]tv{}
	for i, p := range m.Params {
		a := args[i]
		if a.T == nil {
			if t := c.resolveType(m.PTypes[i]); t != nil {
				a.T = t
				if at, ok := a.V.(*Term); ok && at.Op == "int" && isFileMode(t) {
					a.V = BVLit(at.Int.Uint64(), 32)
				}
			}
		}
		c.vars[p] = a
	}
	return c.eval(m.Body)
}

func funName(x ast.Expr) string {
	switch f := x.(type) {
	case *ast.Ident:
		return f.Name
	case *ast.SelectorExpr:
		if id, ok := f.X.(*ast.Ident); ok {
			return id.Name + "." + f.Sel.Name
		}
	}
	return ""
}

func (e *Env) call(n *ast.CallExpr) tv {
	name := funName(n.Fun)
	// type conversion
	if t := e.resolveType(n.Fun); t != nil && len(n.Args) == 1 {
		a := e.eval(n.Args[0])
		if types.IsInterface(t) && a.T != nil && !types.IsInterface(a.T) {
			// conversion of a value whose payload is the value itself (pointers, ...) to an interface
			if at, ok := a.V.(*Term); ok && payloadIsValue(a.T) {
				return tv{IfaceV{tagTerm(a.T), at}, t}
			}
			evalFail("conversion of %s to an interface is not supported in contracts", a.T)
		}
		if at, ok := a.V.(*Term); ok {
			s, _ := scalarSort(t)
			if s != nil && s.Kind == SBV && at.Op == "int" {
				return tv{BVLit(at.Int.Uint64(), s.W), t}
			}
			if s != nil && s.Kind == SString && at.Sort.Kind == SInt {
				return tv{mk("str.from_code", StringS, at), t}
			}
		}
		return tv{a.V, t}
	}
	arg := func(i int) tv {
		if i >= len(n.Args) {
			evalFail("%s: missing argument %d", name, i)
		}
		return e.eval(n.Args[i])
	}
	argT := func(i int) *Term {
		v := arg(i)
		t, ok := v.V.(*Term)
		if !ok {
			evalFail("%s: argument %d must be scalar, got %T", name, i, v.V)
		}
		return t
	}
	switch name {
	case "old":
		c := *e
		c.useOld = true
		if c.old == nil {
			evalFail("old() not available here")
		}
		return c.eval(n.Args[0])
	case "implies":
		return tv{Implies(e.evalBool(n.Args[0]), e.evalBool(n.Args[1])), nil}
	case "iff":
		return tv{Iff(e.evalBool(n.Args[0]), e.evalBool(n.Args[1])), nil}
	case "ite":
		c := e.evalBool(n.Args[0])
		a, b := coerce(arg(1), arg(2))
		rt := a.T
		if rt == nil {
			rt = b.T
		}
		at, ok1 := a.V.(*Term)
		bt, ok2 := b.V.(*Term)
		if ok1 && ok2 {
			return tv{Ite(c, at, bt), rt}
		}
		if rt == nil {
			evalFail("ite on untyped non-scalars")
		}
		av, bv := e.coerceTo(a, rt), e.coerceTo(b, rt)
		ac, bc := toComps(rt, av), toComps(rt, bv)
		out := make([]*Term, len(ac))
		for i := range ac {
			out[i] = Ite(c, ac[i], bc[i])
		}
		v, _ := fromComps(rt, out)
		return tv{v, rt}
	case "forall", "exists":
		id, ok := n.Args[0].(*ast.Ident)
		if !ok {
			evalFail("%s: first argument must be a variable name", name)
		}
		c := e.child()
		var guard *Term = True
		var bodyX ast.Expr
		var bv *Term
		switch len(n.Args) {
		case 4: // integer range
			bv = Var(freshName(id.Name), IntS)
			c.vars[id.Name] = tv{bv, types.Typ[types.Int]}
			lo, hi := e.evalInt(n.Args[1]), e.evalInt(n.Args[2])
			guard = And(Le(lo, bv), Lt(bv, hi))
			bodyX = n.Args[3]
		case 3: // over a set / map domain, or a sort name
			bodyX = n.Args[2]
			if sid, ok := n.Args[1].(*ast.Ident); ok && (sid.Name == "int" || sid.Name == "string") {
				if sid.Name == "int" {
					bv = Var(freshName(id.Name), IntS)
					c.vars[id.Name] = tv{bv, types.Typ[types.Int]}
				} else {
					bv = Var(freshName(id.Name), StringS)
					c.vars[id.Name] = tv{bv, types.Typ[types.String]}
				}
			} else {
				s := e.eval(n.Args[1])
				sv := e.asSet(s)
				ks, _ := scalarSort(sv.KeyT)
				bv = Var(freshName(id.Name), ks)
				c.vars[id.Name] = tv{bv, sv.KeyT}
				guard = Select(sv.Dom, bv)
			}
		default:
			evalFail("%s expects 3 or 4 arguments", name)
		}
		c.quant = e.quant + 1
		body := c.evalBool(bodyX)
		if name == "forall" {
			return tv{Forall([]*Term{bv}, Implies(guard, body)), nil}
		}
		return tv{Exists([]*Term{bv}, And(guard, body)), nil}
	case "len":
		switch v := arg(0).V.(type) {
		case SliceV:
			return tv{v.Len, types.Typ[types.Int]}
		case *Term:
			if v.Sort.Kind == SString {
				return tv{StrLen(v), types.Typ[types.Int]}
			}
		}
		evalFail("len of unsupported value")
	case "cap":
		if v, ok := arg(0).V.(SliceV); ok {
			return tv{v.Cap, types.Typ[types.Int]}
		}
		evalFail("cap of non-slice")
	case "ref":
		if v, ok := arg(0).V.(SliceV); ok {
			return tv{v.Ref, nil}
		}
		evalFail("ref of non-slice")
	case "off":
		if v, ok := arg(0).V.(SliceV); ok {
			return tv{v.Off, nil}
		}
		evalFail("off of non-slice")
	case "raw": // raw(s, k): element k of the backing array of s
		if v, ok := arg(0).V.(SliceV); ok {
			return tv{readElem(e.h(), v.Elem, v.Ref, argT(1)), v.Elem}
		}
		evalFail("raw of non-slice")
	case "min":
		return tv{Min(argT(0), argT(1)), types.Typ[types.Int]}
	case "max":
		return tv{Max(argT(0), argT(1)), types.Typ[types.Int]}
	case "fresh":
		// fresh(p): allocated after the pre-state
		if e.oldTop == nil {
			evalFail("fresh() not available here")
		}
		switch v := arg(0).V.(type) {
		case *Term:
			return tv{Gt(v, e.oldTop), nil}
		case SliceV:
			return tv{Gt(v.Ref, e.oldTop), nil}
		case IfaceV:
			return tv{Gt(v.Val, e.oldTop), nil}
		case mapV:
			return tv{Gt(v.Addr, e.oldTop), nil}
		}
		evalFail("fresh of unsupported value")
	case "allocated":
		switch v := arg(0).V.(type) {
		case *Term:
			return tv{And(Le(IntLit(1), v), Le(v, e.top())), nil}
		case IfaceV:
			return tv{And(Le(IntLit(1), v.Val), Le(v.Val, e.top())), nil}
		case SliceV:
			return tv{And(Le(IntLit(1), v.Ref), Le(v.Ref, e.top())), nil}
		}
		evalFail("allocated of unsupported value")
	case "held":
		return tv{Select(heapArr(e.h(), "G|held", ArrayS(IntS, BoolS)), argT(0)), nil}
	case "isType":
		iv, ok := arg(0).V.(IfaceV)
		if !ok {
			evalFail("isType on non-interface")
		}
		t := e.resolveType(n.Args[1])
		if t == nil {
			evalFail("isType: unknown type %s", exprString(n.Args[1]))
		}
		return tv{Eq(iv.Tag, tagTerm(t)), nil}
	case "implements":
		iv, ok := arg(0).V.(IfaceV)
		if !ok {
			evalFail("implements on non-interface")
		}
		t := e.resolveType(n.Args[1])
		if t == nil || !types.IsInterface(t) {
			evalFail("implements: unknown interface %s", exprString(n.Args[1]))
		}
		return tv{And(Neq(iv.Tag, IntLit(0)), e.eng.implTerm(iv.Tag, t)), nil}
	case "asError": // asError(tag, payload): the value `x.(error)` (comma-ok form) of an interface value with that dynamic type and payload
		et := types.Universe.Lookup("error").Type()
		tg, pv := argT(0), argT(1)
		ok := And(Neq(tg, IntLit(0)), e.eng.implTerm(tg, et))
		return tv{IfaceV{Ite(ok, tg, IntLit(0)), Ite(ok, pv, IntLit(0))}, et}
	case "tag":
		iv, ok := arg(0).V.(IfaceV)
		if !ok {
			evalFail("tag on non-interface")
		}
		return tv{iv.Tag, nil}
	case "payload":
		iv, ok := arg(0).V.(IfaceV)
		if !ok {
			evalFail("payload on non-interface")
		}
		return tv{iv.Val, nil}
	case "sameSlice":
		return tv{valEq(arg(0), arg(1)), nil}
	case "errIs":
		a, ok1 := e.asIface(arg(0)) // also a non-interface error value such as syscall.EINVAL
		b, ok2 := e.asIface(arg(1))
		if !ok1 || !ok2 {
			evalFail("errIs expects two error values")
		}
		return tv{e.eng.errIs(e.h(), a, b, 3, func(f *Term) {
			if e.quant == 0 && e.facts != nil {
				*e.facts = append(*e.facts, f)
			}
		}), nil}
	case "isPathError":
		a, ok := arg(0).V.(IfaceV)
		if !ok {
			evalFail("isPathError expects an error")
		}
		return tv{Eq(a.Tag, tagTerm(e.eng.pathErrorPtr())), nil}
	case "isLinkError":
		a, ok := arg(0).V.(IfaceV)
		if !ok {
			evalFail("isLinkError expects an error")
		}
		return tv{Eq(a.Tag, tagTerm(e.eng.linkErrorPtr())), nil}
	case "pathOf", "opOf", "innerErr", "oldOf", "newOf":
		a, ok := arg(0).V.(IfaceV)
		if !ok {
			evalFail("%s expects an error", name)
		}
		return e.errField(a, name)
	case "hasPrefix":
		return tv{StrPrefixOf(argT(1), argT(0)), nil}
	case "hasSuffix":
		return tv{StrSuffixOf(argT(1), argT(0)), nil}
	case "contains":
		return tv{StrContains(argT(0), argT(1)), nil}
	case "in":
		s := e.asSet(arg(1))
		return tv{Select(s.Dom, e.keyTerm(arg(0))), nil}
	case "dom":
		return tv{e.asSet(arg(0)), nil}
	case "apply":
		// apply(f, args...): result 0 of calling the function value f (assumed pure)
		f := arg(0)
		ft, ok := f.V.(*Term)
		sig, ok2 := types.Unalias(f.T).Underlying().(*types.Signature)
		if !ok || !ok2 {
			evalFail("apply: first argument must be a function value")
		}
		var as []Value
		for i := 1; i < len(n.Args); i++ {
			as = append(as, e.coerceTo(arg(i), sig.Params().At(i-1).Type()))
		}
		r := fnApply(sig, ft, as)
		return tv{r[0], sig.Results().At(0).Type()}
	case "called": // called("callee"): the function under verification has called a tracked callee on this path
		lit, ok := n.Args[0].(*ast.BasicLit)
		if !ok {
			evalFail("called: argument must be a string literal")
		}
		if t, ok := e.st.ghostV["called|"+strings.Trim(lit.Value, "\"")].(*Term); ok {
			return tv{t, nil}
		}
		return tv{False, nil}
	case "ncalls": // ncalls("callee"): how many calls of a tracked callee the function under verification has completed on this path
		lit, ok := n.Args[0].(*ast.BasicLit)
		if !ok {
			evalFail("ncalls: argument must be a string literal")
		}
		if t, ok := e.st.ghostV["ncalls|"+strings.Trim(lit.Value, "\"")].(*Term); ok {
			return tv{t, types.Typ[types.Int]}
		}
		return tv{IntLit(0), types.Typ[types.Int]}
	case "result": // result("callee", j): result j of the last call of a tracked callee on this path
		lit, ok := n.Args[0].(*ast.BasicLit)
		jl, ok2 := n.Args[1].(*ast.BasicLit)
		if !ok || !ok2 {
			evalFail("result: expects (\"callee\", index)")
		}
		name := strings.Trim(lit.Value, "\"")
		j, _ := strconv.Atoi(jl.Value)
		if curResTypes == nil || j >= len(curResTypes[name]) {
			evalFail("result(%q, %d): no such tracked call in this function", name, j)
		}
		key := fmt.Sprintf("res|%s|%d", name, j)
		v, ok := e.st.ghostV[key]
		if !ok {
			v = e.st.fresh(curResTypes[name][j], "untracked|"+name)
			e.st.ghostV[key] = v
		}
		return tv{v, curResTypes[name][j]}
	case "failed": // failed("callee"): ghost flag of a `propagates` clause
		lit, ok := n.Args[0].(*ast.BasicLit)
		if !ok {
			evalFail("failed: argument must be a string literal")
		}
		name := strings.Trim(lit.Value, "\"")
		if t, ok := e.st.ghostV[failedKey(name)].(*Term); ok {
			return tv{t, nil}
		}
		return tv{False, nil}
	case "oncedone": // oncedone(&once): the sync.Once at this address has run
		return tv{Select(heapArr(e.h(), "G|oncedone", ArrayS(IntS, BoolS)), argT(0)), nil}
	case "gw": // gw("name", key): witness array declared by a `range n ghost` clause
		lit, ok := n.Args[0].(*ast.BasicLit)
		if !ok {
			evalFail("gw: first argument must be a string literal")
		}
		name := strings.Trim(lit.Value, "\"")
		d, ok := ghostWitnessDecl[name]
		if !ok {
			evalFail("gw: no witness array %s", name)
		}
		var vt types.Type = types.Typ[types.Int]
		if d[1] == "string" {
			vt = types.Typ[types.String]
		}
		return tv{Select(heapArr(e.h(), "GW|"+name, ghostWitnessSort(name)), argT(1)), vt}
	case "noopfn":
		return tv{App("noopfn", BoolS, argT(0)), nil}
	case "emptyblobfn": // the function value is a literal `func() (blob.Blob, error) { return blob.NewBytes(nil), nil }`
		return tv{App("emptyblobfn", BoolS, argT(0)), nil}
	case "mkstruct":
		// mkstruct(T, f0, f1, ...): a struct value of type T
		t := e.resolveType(n.Args[0])
		st := structOf(t)
		if t == nil || st == nil || st.NumFields() != len(n.Args)-1 {
			evalFail("mkstruct: bad type or field count")
		}
		sv := StructV{T: t}
		for i := 0; i < st.NumFields(); i++ {
			sv.F = append(sv.F, e.coerceTo(arg(i+1), st.Field(i).Type()))
		}
		return tv{sv, t}
	case "cancelled": // cancelled(ctx): the context (interface value) has been cancelled
		c, ok := arg(0).V.(IfaceV)
		if !ok {
			evalFail("cancelled expects a context value")
		}
		return tv{Select(heapArr(e.h(), "G|cancelled", ArrayS(IntS, BoolS)), c.Val), nil}
	case "cancels": // cancels(f, ctx): f is the cancel function of ctx
		f := argT(0)
		c, ok := arg(1).V.(IfaceV)
		if !ok {
			evalFail("cancels expects (func, context)")
		}
		return tv{Eq(App("ctxOfCancel", IntS, f), c.Val), nil}
	case "world":
		return tv{worldOf(e.h()), nil}
	case "ret", "worldAfter", "retW", "worldAfterW":
		// ret("K", j, args...) / worldAfter("K", args...): the result the deterministic contract K
		// yields in the current (or old) world for these arguments
		lit, ok := n.Args[0].(*ast.BasicLit)
		if !ok {
			evalFail("%s: first argument must be a contract key literal", name)
		}
		kname, _ := strconv.Unquote(lit.Value)
		c, sig := e.eng.contractSig(kname)
		if c == nil || sig == nil {
			evalFail("%s: unknown contract %s", name, kname)
		}
		if !c.Determ {
			evalFail("%s: contract %s is not declared deterministic", name, kname)
		}
		first := 1
		j := 0
		if name == "ret" || name == "retW" {
			jt := e.evalInt(n.Args[1])
			if !jt.IsInt() {
				evalFail("ret: result index must be a literal")
			}
			j = int(jt.Int.Int64())
			first = 2
		}
		var wExplicit *Term
		if name == "retW" || name == "worldAfterW" {
			wExplicit = e.evalInt(n.Args[first])
			first++
		}
		var all []Value
		nargs := sig.Params().Len()
		if sig.Recv() != nil {
			nargs++
		}
		if len(n.Args)-first != nargs {
			evalFail("%s(%s): expected %d arguments, got %d", name, kname, nargs, len(n.Args)-first)
		}
		for i := first; i < len(n.Args); i++ {
			a := e.eval(n.Args[i])
			var want types.Type
			k := i - first
			if sig.Recv() != nil {
				if k == 0 {
					want = sig.Recv().Type()
				} else {
					want = sig.Params().At(k - 1).Type()
				}
			} else {
				want = sig.Params().At(k).Type()
			}
			all = append(all, e.coerceTo(a, want))
		}
		argc := detArgsFor(c, sig, all)
		w0 := worldOf(e.h())
		if wExplicit != nil {
			w0 = wExplicit
		}
		if name == "worldAfter" || name == "worldAfterW" {
			if c.Pure || c.NoWorld {
				return tv{w0, nil}
			}
			return tv{App("det|"+calleeShort(c.Key)+"|world", IntS, append([]*Term{w0}, argc...)...), nil}
		}
		if j >= sig.Results().Len() {
			evalFail("ret: %s has %d results", kname, sig.Results().Len())
		}
		rt := sig.Results().At(j).Type()
		return tv{detResult(c.Key, j, rt, w0, argc), rt}
	case "gint", "gbool", "garr": // ghost heap cells keyed by an address
		lit, ok := n.Args[0].(*ast.BasicLit)
		if !ok {
			evalFail("%s: first argument must be a string literal", name)
		}
		gname, _ := strconv.Unquote(lit.Value)
		var es *Sort
		switch name {
		case "gint":
			es = IntS
		case "gbool":
			es = BoolS
		default:
			es = ArrayS(IntS, IntS)
		}
		return tv{Select(heapArr(e.h(), "G|"+gname, ArrayS(IntS, es)), argT(1)), nil}
	case "uf": // uf("name", args...) : uninterpreted Int-valued function
		lit, ok := n.Args[0].(*ast.BasicLit)
		if !ok {
			evalFail("uf: first argument must be a string literal")
		}
		fname, _ := strconv.Unquote(lit.Value)
		var as []*Term
		for i := 1; i < len(n.Args); i++ {
			as = append(as, argT(i))
		}
		sort := IntS
		switch {
		case strings.HasPrefix(fname, "b_"):
			sort = BoolS
		case strings.HasPrefix(fname, "s_"):
			sort = StringS
		}
		return tv{App("uf|"+fname, sort, as...), nil}
	}
	// a library lemma used as a hypothesis (its instance is true by assumption; audited by `govc audit`)
	for _, l := range e.eng.cs.Lemmas {
		if l.Name == name {
			return tv{e.applyLemma(n), nil}
		}
	}
	// spec macro
	if m := e.eng.lookupMacro(name, e.pkg); m != nil {
		args := make([]tv, len(n.Args))
		for i := range n.Args {
			args[i] = e.eval(n.Args[i])
		}
		return e.expandMacro(m, args)
	}
	if r, ok := e.eng.specBuiltin(e, name, n); ok {
		return r
	}
	evalFail("unknown function %s in contract", name)
	return tv{}
}

// applyLemma instantiates a declared lemma with the given argument expressions.
func (e *Env) applyLemma(call *ast.CallExpr) *Term {
	name := funName(call.Fun)
	var lem *Lemma
	for _, l := range e.eng.cs.Lemmas {
		if l.Name == name {
			lem = l
		}
	}
	if lem == nil {
		evalFail("unknown lemma %s", name)
	}
	if len(call.Args) != len(lem.Params) {
		evalFail("lemma %s expects %d arguments", name, len(lem.Params))
	}
	c := e.child()
	if p := e.eng.typesPkg(lem.Pkg); p != nil {
		c.pkg = p
	}
	c.vars = map[string]tv{}
	for i, p := range lem.Params {
		c.vars[p] = e.eval(call.Args[i])
	}
	e.eng.lemmasUsed[name] = true
	return c.evalBool(lem.Body)
}

// coerceTo adapts an evaluated argument to a declared parameter type (nil, untyped constants, value -> interface).
func (e *Env) coerceTo(a tv, want types.Type) Value {
	if _, isNil := a.V.(nilV); isNil {
		return zeroValue(want)
	}
	if t, ok := a.V.(*Term); ok {
		if s, _ := scalarSort(want); s != nil && s.Kind == SBV && t.Op == "int" {
			return BVLit(t.Int.Uint64(), s.W)
		}
		if types.IsInterface(want) && a.T != nil && !types.IsInterface(a.T) {
			if payloadIsValue(a.T) {
				return IfaceV{tagTerm(a.T), t}
			}
		}
	}
	return a.V
}

func (e *Env) asIface(v tv) (IfaceV, bool) {
	switch x := v.V.(type) {
	case IfaceV:
		return x, true
	case *Term:
		// a non-interface error value such as syscall.Errno
		if v.T != nil && !types.IsInterface(v.T) {
			return IfaceV{tagTerm(v.T), x}, true
		}
	}
	return IfaceV{}, false
}

func (e *Env) asSet(v tv) setV {
	switch x := v.V.(type) {
	case setV:
		return x
	case mapV:
		ks, _ := scalarSort(x.KeyT)
		return setV{Dom: Select(heapArr(e.h(), x.Name+"|dom", ArrayS(IntS, ArrayS(ks, BoolS))), x.Addr), KeyT: x.KeyT}
	}
	evalFail("expected a set or map, got %T", v.V)
	return setV{}
}

func (e *Env) mapGet(m mapV, k tv) Value {
	ks, _ := scalarSort(m.KeyT)
	cs := comps(m.ValT)
	ts := make([]*Term, len(cs))
	for i, c := range cs {
		a := heapArr(e.h(), m.Name+"|val"+c.suffix, ArrayS(IntS, ArrayS(ks, c.sort)))
		ts[i] = Select(Select(a, m.Addr), e.keyTerm(k))
	}
	v, _ := fromComps(m.ValT, ts)
	return v
}

func (e *Env) errField(a IfaceV, which string) tv {
	pe := namedOf(e.eng.pathErrorPtr().(*types.Pointer).Elem())
	le := namedOf(e.eng.linkErrorPtr().(*types.Pointer).Elem())
	isPE := Eq(a.Tag, tagTerm(e.eng.pathErrorPtr()))
	fieldIdx := func(n *types.Named, name string) int {
		s := structOf(n)
		for i := 0; i < s.NumFields(); i++ {
			if s.Field(i).Name() == name {
				return i
			}
		}
		panic("no field " + name)
	}
	switch which {
	case "pathOf":
		return tv{readField(e.h(), pe, fieldIdx(pe, "Path"), a.Val), types.Typ[types.String]}
	case "oldOf":
		return tv{readField(e.h(), le, fieldIdx(le, "Old"), a.Val), types.Typ[types.String]}
	case "newOf":
		return tv{readField(e.h(), le, fieldIdx(le, "New"), a.Val), types.Typ[types.String]}
	case "opOf":
		p := readField(e.h(), pe, fieldIdx(pe, "Op"), a.Val).(*Term)
		l := readField(e.h(), le, fieldIdx(le, "Op"), a.Val).(*Term)
		return tv{Ite(isPE, p, l), types.Typ[types.String]}
	case "innerErr":
		p := readField(e.h(), pe, fieldIdx(pe, "Err"), a.Val).(IfaceV)
		l := readField(e.h(), le, fieldIdx(le, "Err"), a.Val).(IfaceV)
		return tv{IfaceV{Ite(isPE, p.Tag, l.Tag), Ite(isPE, p.Val, l.Val)}, e.eng.errorType()}
	}
	panic("errField")
}
