package main

// sync.Map as a ghost (dom, val) pair; Range(f) as a loop over the keys in arbitrary order.

import (
	"fmt"
	"go/token"
	"go/types"
	"sort"
	"strings"

	"golang.org/x/tools/go/ssa"
)

// syncMapOf finds the syncmap directive for the receiver of a sync.Map call.
func (x *Exec) syncMapOf(fr *Frame, site ssa.Instruction) (*SyncMapSpec, bool) {
	var cc *ssa.CallCommon
	switch s := site.(type) {
	case *ssa.Call:
		cc = s.Common()
	case *ssa.Defer:
		cc = s.Common()
	default:
		return nil, false
	}
	if len(cc.Args) == 0 {
		return nil, false
	}
	fa, ok := cc.Args[0].(*ssa.FieldAddr)
	if !ok {
		return nil, false
	}
	owner := namedOf(fa.X.Type().Underlying().(*types.Pointer).Elem())
	if owner == nil {
		return nil, false
	}
	f := structOf(owner).Field(fa.Field)
	spec := x.eng.cs.SyncMaps[owner.Obj().Pkg().Path()+"."+owner.Obj().Name()+"."+f.Name()]
	return spec, spec != nil
}

func (x *Exec) smArrays(st *State, mv mapV) (dom *Term, tagA, valA *Term, ks *Sort) {
	ks, _ = scalarSort(mv.KeyT)
	dom = st.arr(mv.Name+"|dom", ArrayS(IntS, ArrayS(ks, BoolS)))
	tagA = st.arr(mv.Name+"|val.tag", ArrayS(IntS, ArrayS(ks, IntS)))
	valA = st.arr(mv.Name+"|val.val", ArrayS(IntS, ArrayS(ks, IntS)))
	return
}

// keyOf unboxes an `any` key to the declared key type.
func (x *Exec) keyOf(fr *Frame, st *State, site ssa.Instruction, k Value, kt types.Type) *Term {
	iv, ok := k.(IfaceV)
	if !ok {
		x.fail("sync.Map key is %T", k)
	}
	x.check(st, x.site(fr, site, "call")+".keytype", Eq(iv.Tag, tagTerm(kt)), site.Pos())
	return x.unbox(st, iv, kt).(*Term)
}

// valTyping: the typing invariant of the map's values.
func (x *Exec) valTyping(spec *SyncMapSpec, v IfaceV) *Term {
	vt := x.eng.syncMapValType(spec)
	if vt == nil {
		return True
	}
	if types.IsInterface(vt) {
		if vt.Underlying().(*types.Interface).NumMethods() == 0 {
			return True
		}
		return And(Neq(v.Tag, IntLit(0)), x.eng.implTerm(v.Tag, vt))
	}
	return Eq(v.Tag, tagTerm(vt))
}

func (x *Exec) syncMapIntrinsic(fr *Frame, st *State, fn *ssa.Function, name string, args []Value, site ssa.Instruction, k cont) int {
	if !strings.HasPrefix(name, "(*sync.Map).") {
		return 0
	}
	spec, ok := x.syncMapOf(fr, site)
	if !ok {
		x.fail("%s: no syncmap directive for the receiver", name)
	}
	x.trusted("sync.Map: Load/Store/LoadOrStore/Delete with their sequential meaning (atomicity of LoadOrStore assumed); Range visits every key once in arbitrary order, no concurrent mutation")
	addr := args[0].(*Term)
	mv := x.eng.syncMapV(spec, addr)
	dom, tagA, valA, _ := x.smArrays(st, mv)
	d0, t0, v0 := Select(dom, addr), Select(tagA, addr), Select(valA, addr)
	method := strings.TrimPrefix(name, "(*sync.Map).")
	put := func(key *Term, v IfaceV) {
		st.setArr(mv.Name+"|dom", Store(dom, addr, Store(d0, key, True)))
		st.setArr(mv.Name+"|val.tag", Store(tagA, addr, Store(t0, key, v.Tag)))
		st.setArr(mv.Name+"|val.val", Store(valA, addr, Store(v0, key, v.Val)))
	}
	switch method {
	case "Load":
		key := x.keyOf(fr, st, site, args[1], mv.KeyT)
		present := Select(d0, key)
		v := IfaceV{Ite(present, Select(t0, key), IntLit(0)), Ite(present, Select(v0, key), IntLit(0))}
		st.assume(Implies(present, x.valTyping(spec, IfaceV{Select(t0, key), Select(v0, key)})))
		k(st, []Value{v, present})
	case "Store":
		key := x.keyOf(fr, st, site, args[1], mv.KeyT)
		v := args[2].(IfaceV)
		x.check(st, x.site(fr, site, "call")+".valtype", x.valTyping(spec, v), site.Pos())
		put(key, v)
		k(st, nil)
	case "LoadOrStore":
		key := x.keyOf(fr, st, site, args[1], mv.KeyT)
		v := args[2].(IfaceV)
		x.check(st, x.site(fr, site, "call")+".valtype", x.valTyping(spec, v), site.Pos())
		present := Select(d0, key)
		st.assume(Implies(present, x.valTyping(spec, IfaceV{Select(t0, key), Select(v0, key)})))
		actual := IfaceV{Ite(present, Select(t0, key), v.Tag), Ite(present, Select(v0, key), v.Val)}
		// store iff absent
		st.setArr(mv.Name+"|dom", Store(dom, addr, Store(d0, key, True)))
		st.setArr(mv.Name+"|val.tag", Store(tagA, addr, Store(t0, key, actual.Tag)))
		st.setArr(mv.Name+"|val.val", Store(valA, addr, Store(v0, key, actual.Val)))
		k(st, []Value{actual, present})
	case "Delete":
		key := x.keyOf(fr, st, site, args[1], mv.KeyT)
		st.setArr(mv.Name+"|dom", Store(dom, addr, Store(d0, key, False)))
		k(st, nil)
	case "Range":
		x.rangeRule(fr, st, spec, mv, args[1], site, k)
	default:
		x.fail("unsupported sync.Map method %s", method)
	}
	return 1
}

// rangeOrdinal numbers the Range calls of a function in source order.
func (x *Exec) rangeOrdinal(fn *ssa.Function, site ssa.Instruction) int {
	n := 0
	for _, b := range fn.Blocks {
		for _, in := range b.Instrs {
			if c, ok := in.(ssa.CallInstruction); ok {
				if f := c.Common().StaticCallee(); f != nil && f.String() == "(*sync.Map).Range" {
					n++
					if in == site {
						return n
					}
				}
			}
		}
	}
	return 0
}

func (x *Exec) rangeRule(fr *Frame, st *State, spec *SyncMapSpec, mv mapV, fnv Value, site ssa.Instruction, k cont) {
	clo, ok := fnv.(ClosureV)
	if !ok {
		x.fail("sync.Map.Range with an unknown function value")
	}
	ord := x.rangeOrdinal(fr.fn, site)
	var c *Contract
	if fr.inl {
		c = x.eng.cs.Funcs[x.eng.fnKey[fr.fn]]
	} else {
		c = x.c
	}
	var rs *RangeSpec
	if c != nil {
		rs = c.Ranges[ord]
	}
	pos := site.Pos()
	if rs == nil || len(rs.Inv) == 0 {
		x.oblige(st, fmt.Sprintf("%srange.%d.missing-invariant", fr.prefix, ord), False, pos)
		return
	}
	ks, _ := scalarSort(mv.KeyT)
	setSort := ArrayS(ks, BoolS)
	dom0, _, _, _ := x.smArrays(st, mv)
	domSet := Select(dom0, mv.Addr)

	mkEnv := func(s *State, visited *Term, key *Term) *Env {
		env := &Env{eng: x.eng, st: s, vars: map[string]tv{}, pkg: fr.fn.Pkg.Pkg, old: heapSnap{}, oldTop: s.top0}
		if !fr.inl {
			for n, v := range x.params {
				env.vars[n] = v
			}
		}
		x.localsEnv(fr, s, env, nil)
		env.vars[rs.Visited] = tv{setV{Dom: visited, KeyT: mv.KeyT}, nil}
		if rs.Key != "" && key != nil {
			env.vars[rs.Key] = tv{key, mv.KeyT}
		}
		return env
	}
	evalC := func(env *Env, cl Clause, what string) *Term {
		return x.evalClause(env, c, fmt.Sprintf("range %d %s %s", ord, what, cl.Label), cl.Expr)
	}
	// 1. invariant holds with nothing visited
	empty := ConstArray(setSort, False)
	env := mkEnv(st, empty, nil)
	for _, cl := range rs.Inv {
		x.check(st, fmt.Sprintf("%srange.%d.entry.%s", fr.prefix, ord, cl.Label), evalC(env, cl, "invariant"), pos)
	}
	// 2. havoc what the callback writes
	body := map[*ssa.BasicBlock]bool{}
	for _, b := range clo.Fn.Blocks {
		body[b] = true
	}
	cfr := &Frame{fn: clo.Fn, regs: map[ssa.Value]Value{}, bind: clo.Bind}
	havocAll := func(s *State) {
		x.freshOnly = nil
		framed := false
		cells, arrays, points := x.loopWrites2(cfr, s, body)
		topAtEntry := s.heaptop
		for _, nm := range sortedKeys(x.freshOnly) {
			if _, whole := arrays[nm]; whole {
				continue
			}
			srt := x.freshOnly[nm]
			old := s.arr(nm, srt)
			nw := Const(freshName(nm), srt)
			x.pendingTop = append(x.pendingTop, nw.Name)
			a := Var(freshName("fa"), IntS)
			q := Forall([]*Term{a}, Implies(Le(a, topAtEntry), Eq(Select(nw, a), Select(old, a))))
			q.Pat = []*Term{Select(nw, a)}
			s.assume(q)
			s.heap[nm] = nw
			framed = true
		}
		for _, cell := range cells {
			s.cells[cell] = s.fresh(cell.T, "range|"+cell.name)
		}
		names := make([]string, 0, len(arrays))
		for n := range arrays {
			names = append(names, n)
		}
		sort.Strings(names)
		for _, n := range names {
			s.heap[n] = Const(freshName(n), arrays[n])
			x.pendingTop = append(x.pendingTop, s.heap[n].Name)
		}
		x.havoc(s, points)
		if len(names) > 0 || len(points) > 0 || framed {
			s.bumpTop()
		}
		x.flushTop(s)
	}
	havocGhosts := func(s *State) {
		for _, g := range rs.Ghosts {
			nm := "GW|" + g.Name
			s.heap[nm] = Const(freshName(nm), ghostWitnessSort(g.Name))
		}
	}
	// --- path A: an arbitrary iteration
	stA, frA := st.clone(), fr.clone()
	havocAll(stA)
	havocGhosts(stA)
	visited := Const(freshName("visited"), setSort)
	key := Const(freshName("rangekey"), ks)
	// visited is a subset of the domain; the current key is unvisited
	sub := Var(freshName("vk"), ks)
	stA.assume(Forall([]*Term{sub}, Implies(Select(visited, sub), Select(domSet, sub))))
	stA.assume(And(Select(domSet, key), Not(Select(visited, key))))
	envA := mkEnv(stA, visited, key)
	for _, u := range rs.Uses {
		x.applyUse(envA, c, u)
	}
	for _, cl := range rs.Inv {
		stA.assume(evalC(envA, cl, "invariant"))
	}
	// witness arrays: name[keyExpr] := valExpr at the start of the iteration
	for _, g := range rs.Ghosts {
		nm := "GW|" + g.Name
		kt := envA.eval(g.Key).V.(*Term)
		vt := envA.eval(g.Val).V.(*Term)
		stA.heap[nm] = Store(heapArr(stA.heap, nm, ghostWitnessSort(g.Name)), kt, vt)
	}
	_, tagA, valA, _ := x.smArrays(stA, mv)
	val := IfaceV{Select(Select(tagA, mv.Addr), key), Select(Select(valA, mv.Addr), key)}
	stA.assume(x.valTyping(spec, val))
	// box the key as `any`
	keyIface := x.makeIface(stA, mv.KeyT, key)
	x.callFunc(frA, stA, clo.Fn, clo.Bind, []Value{keyIface, val}, site, func(s2 *State, rets []Value) {
		cont := rets[0].(*Term)
		// continue: invariant for visited ∪ {key}
		sC := s2.clone()
		sC.assume(cont)
		if !sC.dead {
			envC := mkEnv(sC, Store(visited, key, True), key)
			for _, cl := range rs.Inv {
				x.check(sC, fmt.Sprintf("%srange.%d.preserve.%s", fr.prefix, ord, cl.Label), evalC(envC, cl, "invariant"), pos)
			}
		}
		// break: onbreak must hold, then the caller continues
		sB := s2
		sB.assume(Not(cont))
		if !sB.dead {
			envB := mkEnv(sB, visited, key)
			for _, cl := range rs.OnBreak {
				x.check(sB, fmt.Sprintf("%srange.%d.onbreak.%s", fr.prefix, ord, cl.Label), evalC(envB, cl, "onbreak"), pos)
			}
			k(sB, nil)
		}
	})
	// --- path B: the iteration ran to completion
	havocAll(st)
	havocGhosts(st)
	envE := mkEnv(st, domSet, nil)
	for _, cl := range rs.Inv {
		st.assume(evalC(envE, cl, "invariant"))
	}
	k(st, nil)
}

var _ = token.NoPos

func ghostWitnessSort(name string) *Sort {
	d := ghostWitnessDecl[name]
	srt := func(t string) *Sort {
		if t == "string" {
			return StringS
		}
		return IntS
	}
	return ArrayS(srt(d[0]), srt(d[1]))
}
