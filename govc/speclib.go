package main

// Specification library: paths (uninterpreted ValidPath + lemma instances), strings, sync.Map.

import (
	"go/ast"
	"unicode/utf8"

	"golang.org/x/tools/go/ssa"
)

func validPath(p *Term) *Term {
	if p.Op == "str" {
		return BoolLit(goValidPath(p.Str))
	}
	return App("ValidPath", BoolS, p)
}

// goValidPath mirrors io/fs.ValidPath (used only to fold literals).
func goValidPath(name string) bool {
	if !utf8.ValidString(name) {
		return false
	}
	if name == "." {
		return true
	}
	for {
		i := 0
		for i < len(name) && name[i] != '/' {
			i++
		}
		elem := name[:i]
		if elem == "" || elem == "." || elem == ".." {
			return false
		}
		if i == len(name) {
			break
		}
		name = name[i+1:]
	}
	return true
}

func specLib(e *Engine, env *Env, name string, n *ast.CallExpr) (tv, bool) {
	argT := func(i int) *Term {
		v := env.eval(n.Args[i])
		t, ok := v.V.(*Term)
		if !ok {
			evalFail("%s: argument %d must be scalar", name, i)
		}
		return t
	}
	switch name {
	case "ValidPath", "VP":
		return tv{validPath(argT(0)), nil}, true
	}
	return tv{}, false
}

func (x *Exec) stringIntrinsic(fr *Frame, st *State, name string, args []Value, site ssa.Instruction) ([]Value, bool) {
	return nil, false
}

func (x *Exec) syncMapIntrinsic(fr *Frame, st *State, fn *ssa.Function, name string, args []Value, site ssa.Instruction, k cont) int {
	return 0
}
