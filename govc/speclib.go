package main

// Specification library: paths (uninterpreted ValidPath + lemma instances), strings, sync.Map.

import (
	"go/ast"
	"go/types"
	"strings"
	"unicode/utf8"

	"golang.org/x/tools/go/ssa"
)

func validPath(p *Term) *Term {
	if p.Op == "str" {
		return BoolLit(goValidPath(p.Str))
	}
	return App("ValidPath", BoolS, p)
}

// goValidPath mirrors io/fs.ValidPath (used only to fold literals).
func goValidPath(name string) bool {
	if !utf8.ValidString(name) {
		return false
	}
	if name == "." {
		return true
	}
	for {
		i := 0
		for i < len(name) && name[i] != '/' {
			i++
		}
		elem := name[:i]
		if elem == "" || elem == "." || elem == ".." {
			return false
		}
		if i == len(name) {
			break
		}
		name = name[i+1:]
	}
	return true
}

// ---- path spec functions ----

func pjoin(a, b *Term) *Term {
	dot := StrLit(".")
	return Ite(Eq(a, dot), b, Ite(Eq(b, dot), a, StrConcat(a, StrLit("/"), b)))
}

func under(p, d *Term) *Term {
	return Or(Eq(d, StrLit(".")), Eq(p, d), StrPrefixOf(StrConcat(d, StrLit("/")), p))
}

func trimPrefix(s, p *Term) *Term {
	if p.Op == "str" && p.Str == "" {
		return s
	}
	return Ite(StrPrefixOf(p, s), StrSubstr(s, StrLen(p), Sub(StrLen(s), StrLen(p))), s)
}

func trimSuffix(s, p *Term) *Term {
	if p.Op == "str" && p.Str == "" {
		return s
	}
	return Ite(StrSuffixOf(p, s), StrSubstr(s, IntLit(0), Sub(StrLen(s), StrLen(p))), s)
}

// pathJoin2: path.Join(a, b) on the arguments the library passes: valid FS paths, or an empty first/second element.
func pathJoin2(a, b *Term) *Term {
	empty := StrLit("")
	return Ite(And(validPath(a), validPath(b)), pjoin(a, b),
		Ite(And(Eq(a, empty), validPath(b)), b,
			Ite(And(Eq(b, empty), validPath(a)), a, App("pathJoin2", StringS, a, b))))
}

// replaceAllT: strings.ReplaceAll, uninterpreted except for the trivial cases.
func replaceAllT(s, a, b *Term) *Term {
	if Eqt(a, b) {
		return s // replacing a by itself
	}
	if s.Op == "str" && a.Op == "str" && b.Op == "str" {
		return StrLit(strings.ReplaceAll(s.Str, a.Str, b.Str))
	}
	return App("replaceAll", StringS, s, a, b)
}

func pdir(p *Term) *Term  { return App("pdir", StringS, p) }
func pbase(p *Term) *Term { return App("pbase", StringS, p) }

func specLib(e *Engine, env *Env, name string, n *ast.CallExpr) (tv, bool) {
	argT := func(i int) *Term {
		v := env.eval(n.Args[i])
		t, ok := v.V.(*Term)
		if !ok {
			evalFail("%s: argument %d must be scalar", name, i)
		}
		return t
	}
	str := types.Typ[types.String]
	switch name {
	case "ValidPath", "VP":
		return tv{validPath(argT(0)), nil}, true
	case "pjoin":
		return tv{pjoin(argT(0), argT(1)), str}, true
	case "pathJoin":
		return tv{pathJoin2(argT(0), argT(1)), str}, true
	case "under":
		return tv{under(argT(0), argT(1)), nil}, true
	case "trimPrefix":
		return tv{trimPrefix(argT(0), argT(1)), str}, true
	case "trimSuffix":
		return tv{trimSuffix(argT(0), argT(1)), str}, true
	case "pdir":
		return tv{pdir(argT(0)), str}, true
	case "pbase":
		return tv{pbase(argT(0)), str}, true
	case "replaceAll":
		return tv{replaceAllT(argT(0), argT(1), argT(2)), str}, true
	case "pclean":
		return tv{App("pclean", StringS, argT(0)), str}, true
	case "substr":
		return tv{StrSubstr(argT(0), argT(1), Sub(argT(2), argT(1))), str}, true
	}
	return tv{}, false
}

// sliceElems reads the elements of a slice whose length is a literal.
func (x *Exec) sliceElems(st *State, s SliceV) ([]Value, bool) {
	if !s.Len.IsInt() {
		return nil, false
	}
	n := int(s.Len.Int.Int64())
	out := make([]Value, n)
	for i := 0; i < n; i++ {
		out[i] = readElem(st.heap, s.Elem, s.Ref, Add(s.Off, IntLit(int64(i))))
	}
	return out, true
}

func (x *Exec) stringIntrinsic(fr *Frame, st *State, name string, args []Value, site ssa.Instruction) ([]Value, bool) {
	t := func(i int) *Term { return args[i].(*Term) }
	switch name {
	case "strings.HasPrefix":
		x.trusted("strings.HasPrefix/HasSuffix/TrimPrefix/TrimSuffix/ContainsRune: SMT-LIB string semantics")
		return []Value{StrPrefixOf(t(1), t(0))}, true
	case "strings.HasSuffix":
		return []Value{StrSuffixOf(t(1), t(0))}, true
	case "strings.TrimPrefix":
		x.trusted("strings.HasPrefix/HasSuffix/TrimPrefix/TrimSuffix/ContainsRune: SMT-LIB string semantics")
		return []Value{trimPrefix(t(0), t(1))}, true
	case "strings.TrimSuffix":
		x.trusted("strings.HasPrefix/HasSuffix/TrimPrefix/TrimSuffix/ContainsRune: SMT-LIB string semantics")
		return []Value{trimSuffix(t(0), t(1))}, true
	case "strings.Contains":
		return []Value{StrContains(t(0), t(1))}, true
	case "strings.ContainsRune":
		return []Value{StrContains(t(0), mk("str.from_code", StringS, t(1)))}, true
	case "strings.TrimLeft", "strings.TrimRight":
		// cut sets are single characters here ("/" or the separator): r is s without the leading/trailing run of c
		x.trusted("strings.TrimLeft/TrimRight with a one-character cutset '/' or '\\': s = c^k ++ r (resp. r ++ c^k) with r not starting (ending) with c")
		s, c := t(0), t(1)
		r := App("trim|"+name, StringS, s, c)
		allC := func(p *Term) *Term {
			return Or(And(Eq(c, StrLit("/")), StrAllChars(p, "/")), And(Eq(c, StrLit("\\")), StrAllChars(p, "\\")),
				And(Neq(c, StrLit("/")), Neq(c, StrLit("\\")), App("allChar", BoolS, p, c)))
		}
		if name == "strings.TrimLeft" {
			cut := StrSubstr(s, IntLit(0), Sub(StrLen(s), StrLen(r)))
			st.assume(And(StrSuffixOf(r, s), Implies(Eq(StrLen(c), IntLit(1)), And(Not(StrPrefixOf(c, r)), allC(cut)))))
		} else {
			cut := StrSubstr(s, StrLen(r), Sub(StrLen(s), StrLen(r)))
			st.assume(And(StrPrefixOf(r, s), Implies(Eq(StrLen(c), IntLit(1)), And(Not(StrSuffixOf(c, r)), allC(cut)))))
		}
		return []Value{r}, true
	case "strings.ReplaceAll":
		x.trusted("strings.ReplaceAll with one-character arguments: uninterpreted + separator lemmas")
		return []Value{replaceAllT(t(0), t(1), t(2))}, true
	case "path.Join":
		x.trusted("path.Join: for valid FS paths a, b the result is pjoin(a, b); three-element form per appendix E; otherwise uninterpreted")
		sv, ok := args[0].(SliceV)
		if !ok {
			return nil, false
		}
		es, ok := x.sliceElems(st, sv)
		if !ok {
			x.fail("path.Join with a non-literal argument list")
		}
		switch len(es) {
		case 2:
			a, b := es[0].(*Term), es[1].(*Term)
			return []Value{pathJoin2(a, b)}, true
		case 3:
			a, b, c := es[0].(*Term), es[1].(*Term), es[2].(*Term)
			if a.Op == "str" && a.Str == "/" {
				// Join("/", root, name) with root "" or valid, name valid
				rootOrDot := Ite(Eq(b, StrLit("")), StrLit("."), b)
				j := pjoin(rootOrDot, c)
				good := And(Or(Eq(b, StrLit("")), validPath(b)), validPath(c))
				return []Value{Ite(good, Ite(Eq(j, StrLit(".")), StrLit("/"), StrConcat(StrLit("/"), j)), App("pathJoin3", StringS, a, b, c))}, true
			}
			return []Value{App("pathJoin3", StringS, a, b, c)}, true
		}
		x.fail("path.Join with %d arguments", len(es))
	case "path.Dir":
		x.trusted("path.Dir/Base/Split: uninterpreted pdir/pbase + lemma library")
		return []Value{pdir(t(0))}, true
	case "path.Base":
		x.trusted("path.Dir/Base/Split: uninterpreted pdir/pbase + lemma library")
		return []Value{pbase(t(0))}, true
	case "path.Split":
		x.trusted("path.Dir/Base/Split: uninterpreted pdir/pbase + lemma library")
		p := t(0)
		dir := App("psplitdir", StringS, p)
		base := App("psplitbase", StringS, p)
		st.assume(And(Eq(StrConcat(dir, base), p), Not(StrContains(base, StrLit("/"))), Or(Eq(dir, StrLit("")), StrSuffixOf(StrLit("/"), dir))))
		return []Value{dir, base}, true
	case "path.Clean":
		x.trusted("path.Clean: uninterpreted pclean + lemma library")
		return []Value{App("pclean", StringS, t(0))}, true
	}
	return nil, false
}

