package main

// String abstraction: the same query with String replaced by an uninterpreted sort and
// every string operation by an uninterpreted function. Any model of the string theory is
// a model of the abstraction, so `unsat` of the abstract query proves the obligation;
// `sat` of the abstract query means nothing and is ignored.

import (
	"fmt"
	"sort"
)

type abstractor struct {
	memo map[*Term]*Term
	lits map[string]*Term
}

func absSort(s *Sort) *Sort {
	switch s.Kind {
	case SString:
		return StrU
	case SArray:
		return ArrayS(absSort(s.Idx), absSort(s.Elem))
	}
	return s
}

func (a *abstractor) lit(s string) *Term {
	if t, ok := a.lits[s]; ok {
		return t
	}
	t := Const(fmt.Sprintf("strlit|%x", s), StrU)
	a.lits[s] = t
	return t
}

func (a *abstractor) tr(t *Term) *Term {
	if r, ok := a.memo[t]; ok {
		return r
	}
	var r *Term
	switch t.Op {
	case "str":
		r = a.lit(t.Str)
	case "int", "bool", "bv":
		r = t
	case "const", "var":
		if ns := absSort(t.Sort); ns != t.Sort {
			n := *t
			n.Sort, n.key = ns, ""
			r = &n
		} else {
			r = t
		}
	case "def":
		body := a.tr(t.Args[0])
		r = &Term{Op: "def", Name: t.Name + "~abs", Sort: body.Sort, Args: []*Term{body}}
	default:
		if t.Op == "str.in_re" {
			r = App("s.in_re|"+t.Args[1].String(), BoolS, a.tr(t.Args[0]))
			a.memo[t] = r
			return r
		}
		args := make([]*Term, len(t.Args))
		for i, x := range t.Args {
			args[i] = a.tr(x)
		}
		n := *t
		n.key = ""
		n.Args = args
		n.Sort = absSort(t.Sort)
		if len(t.Bound) > 0 {
			n.Bound = make([]*Term, len(t.Bound))
			for i, b := range t.Bound {
				n.Bound[i] = a.tr(b)
			}
		}
		if len(t.Pat) > 0 {
			n.Pat = make([]*Term, len(t.Pat))
			for i, p := range t.Pat {
				n.Pat[i] = a.tr(p)
			}
		}
		if len(t.Op) > 4 && t.Op[:4] == "str." {
			switch t.Op {
			case "str.in_re":
				// the regular expression is dropped: an uninterpreted predicate per expression
				r = App("s.in_re|"+t.Args[1].String(), BoolS, args[0])
			case "str.to_re":
				r = &n
			case "str.++":
				// right-nested binary concatenation
				acc := args[len(args)-1]
				for i := len(args) - 2; i >= 0; i-- {
					acc = App("s.cat", StrU, args[i], acc)
				}
				r = acc
			default:
				r = App("s."+t.Op[4:], n.Sort, args...)
			}
		} else {
			r = &n
		}
	}
	a.memo[t] = r
	return r
}

// axioms about the abstract string functions that are cheap and often needed.
func (a *abstractor) axioms(d *decls) []*Term {
	var out []*Term
	keys := make([]string, 0, len(a.lits))
	for k := range a.lits {
		keys = append(keys, k)
	}
	sort.Strings(keys)
	if len(keys) > 1 {
		ds := make([]*Term, len(keys))
		for i, k := range keys {
			ds[i] = a.lits[k]
		}
		out = append(out, mk("distinct", BoolS, ds...))
	}
	if _, ok := d.funcs["s.len"]; ok {
		for _, k := range keys {
			out = append(out, Eq(App("s.len", IntS, a.lits[k]), IntLit(int64(len(k)))))
		}
		v := Var("sx", StrU)
		body := Le(IntLit(0), App("s.len", IntS, v))
		q := Forall([]*Term{v}, body)
		q.Pat = []*Term{App("s.len", IntS, v)}
		out = append(out, q)
		if _, ok := d.funcs["s.cat"]; ok {
			w := Var("sy", StrU)
			cat := App("s.cat", StrU, v, w)
			q2 := Forall([]*Term{v, w}, Eq(App("s.len", IntS, cat), Add(App("s.len", IntS, v), App("s.len", IntS, w))))
			q2.Pat = []*Term{cat}
			out = append(out, q2)
		}
	}
	return out
}
