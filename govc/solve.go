package main

// SMT-LIB emission and solver racing (z3 4.8.12, z3-new 5.1.0, cvc5 1.0.x).

import (
	"bytes"
	"context"
	"crypto/sha256"
	"fmt"
	"go/types"
	"os"
	"strconv"
	"os/exec"
	"path/filepath"
	"sort"
	"strings"
	"sync"
	"time"
)

type SolveResult struct {
	Status  string // unsat, sat, unknown, timeout, error, toolarge
	Solver  string
	Seconds float64
	Model   string
	File    string
	Bytes   int
	Detail  string
}

type solverSpec struct {
	name     string
	bin      string
	args     func(timeoutS int) []string
	noLambda bool
}

var solvers = []solverSpec{
	{"z3-4.8.12", "/usr/bin/z3", func(t int) []string { return []string{"-smt2", fmt.Sprintf("-T:%d", t)} }, false},
	{"z3-5.1.0", "z3-new", func(t int) []string { return []string{"-smt2", fmt.Sprintf("-T:%d", t)} }, false},
	{"cvc5-1.0", "/usr/bin/cvc5", func(t int) []string {
		return []string{"--lang=smt2", "--strings-exp", "--produce-models", fmt.Sprintf("--tlimit=%d", t*1000)}
	}, true},
}

// background axioms needed by the symbols occurring in a query.
func (e *Engine) background(d *decls) []*Term {
	var out []*Term
	// opaque global constants: allocated before entry, pairwise distinct
	var gvals []string
	for n, s := range d.consts {
		if strings.HasPrefix(n, "gval|") && s.Kind == SInt && !strings.Contains(strings.TrimPrefix(n, "gval|"), "|") {
			gvals = append(gvals, n)
		}
	}
	sort.Strings(gvals)
	for i, n := range gvals {
		c := Const(n, IntS)
		out = append(out, Le(IntLit(1), c), Le(c, Const("heaptop", IntS)))
		for _, m := range gvals[i+1:] {
			out = append(out, Neq(c, Const(m, IntS)))
		}
	}
	// implements-predicates on registered concrete types
	for _, fname := range sortedKeys(d.funcs) {
		if strings.HasPrefix(fname, "impl|") {
			it := ifaceReg[strings.TrimPrefix(fname, "impl|")]
			if it == nil {
				continue
			}
			iface := it.Underlying().(*types.Interface)
			tagIDs, tagTypes := tags.all()
			for ti, t := range tagTypes {
				i := tagIDs[ti] - 1
				// facts about a concrete type are only needed where its tag occurs literally in the query
				// (this also keeps the script independent of how many types have been seen so far)
				if !d.intLits[int64(i+1)] {
					continue
				}
				if pt, isPseudo := t.(*pseudoType); isPseudo {
					f := App(fname, BoolS, IntLit(int64(i+1)))
					if pseudoImplements(pt, it) {
						out = append(out, f)
					} else {
						out = append(out, Not(f))
					}
					continue
				}
				out = append(out, Eq(App(fname, BoolS, IntLit(int64(i+1))), BoolLit(types.Implements(t, iface))))
			}
			// interface embedding: implementing a larger interface implies the smaller ones in use
			for _, f2 := range sortedKeys(d.funcs) {
				if f2 != fname && strings.HasPrefix(f2, "impl|") {
					it2 := ifaceReg[strings.TrimPrefix(f2, "impl|")]
					if it2 != nil && types.Implements(it, it2.Underlying().(*types.Interface)) {
						v := Var("tg", IntS)
						out = append(out, Forall([]*Term{v}, Implies(App(fname, BoolS, v), App(f2, BoolS, v))))
					}
				}
			}
		}
		if strings.HasPrefix(fname, "emb|") {
			v := Var("o", IntS)
			w := Var("o2", IntS)
			out = append(out, Forall([]*Term{v, w}, Implies(Eq(App(fname, IntS, v), App(fname, IntS, w)), Eq(v, w))))
			out = append(out, Forall([]*Term{v}, Implies(Neq(v, IntLit(0)), Neq(App(fname, IntS, v), IntLit(0)))))
		}
	}
	if _, ok := d.funcs["sidx"]; ok {
		o, i := Var("so", IntS), Var("si", IntS)
		q := Forall([]*Term{o, i}, Eq(App("sidx", IntS, o, i), Add(o, i)))
		q.Pat = []*Term{App("sidx", IntS, o, i)}
		out = append(out, q)
	}
	if _, ok := d.funcs["ValidPath"]; ok {
		lits := map[string]bool{"": true, ".": true}
		for l := range d.strLits {
			lits[l] = true
		}
		for _, l := range sortedKeys(lits) {
			f := App("ValidPath", BoolS, StrLit(l))
			if goValidPath(l) {
				out = append(out, f)
			} else {
				out = append(out, Not(f))
			}
		}
	}
	out = append(out, e.lemmaInstances(d)...)
	return out
}

// coverPC weakens a cover query: quantified conjuncts are dropped (model finding under
// quantifiers is what makes these queries slow; the weakening is noted in the evidence).
func coverPC(pc []*Term) []*Term {
	var out []*Term
	for _, p := range pc {
		d := newDecls()
		d.visit(p)
		if d.hasQuant {
			continue
		}
		out = append(out, p)
	}
	return out
}

func (e *Engine) buildScript(o *Obligation, abstract bool) (string, *decls) {
	d := newDecls()
	pc := o.PC
	if o.Cover {
		pc = coverPC(pc)
	}
	for _, p := range pc {
		d.visit(p)
	}
	d.visit(o.Goal)
	bg := e.background(d)
	goal := o.Goal
	if abstract {
		ab := &abstractor{memo: map[*Term]*Term{}, lits: map[string]*Term{}}
		npc := make([]*Term, len(pc))
		for i, p := range pc {
			npc[i] = ab.tr(p)
		}
		pc = npc
		goal = ab.tr(goal)
		nbg := make([]*Term, len(bg))
		for i, b := range bg {
			nbg[i] = ab.tr(b)
		}
		d = newDecls()
		for _, p := range pc {
			d.visit(p)
		}
		d.visit(goal)
		for _, b := range nbg {
			d.visit(b)
		}
		bg = append(nbg, ab.axioms(d)...)
	}
	o2 := *o
	o2.PC, o2.Goal = pc, goal
	o = &o2
	for _, b := range bg {
		d.visit(b)
	}
	// a second round: background may mention new symbols (rare)
	var sb strings.Builder
	sb.WriteString("(set-option :produce-models true)\n")
	sb.WriteString("(set-logic ALL)\n")
	d.emit(&sb)
	for _, b := range bg {
		sb.WriteString("(assert " + b.String() + ")\n")
	}
	for _, p := range o.PC {
		sb.WriteString("(assert " + p.String() + ")\n")
	}
	if !o.Cover {
		sb.WriteString("(assert (not " + o.Goal.String() + "))\n")
	}
	sb.WriteString("(check-sat)\n")
	var ins []string
	seen := map[string]bool{}
	for _, in := range o.Inputs {
		if in.Op == "const" && !seen[in.Name] {
			seen[in.Name] = true
			if _, used := d.consts[in.Name]; used {
				ins = append(ins, mangle(in.Name))
			}
		}
	}
	if len(ins) > 0 {
		sb.WriteString("(get-value (" + strings.Join(ins, " ") + "))\n")
	}
	return sb.String(), d
}

type solveCache struct {
	mu sync.Mutex
	m  map[[32]byte]*SolveResult
}

var scache = &solveCache{m: map[[32]byte]*SolveResult{}}

func runSolver(ctx context.Context, sp solverSpec, file string, timeoutS int) (status, out string, secs float64) {
	start := time.Now()
	cctx, cancel := context.WithTimeout(ctx, time.Duration(timeoutS+2)*time.Second)
	defer cancel()
	cmd := exec.CommandContext(cctx, sp.bin, append(sp.args(timeoutS), file)...)
	var buf bytes.Buffer
	cmd.Stdout = &buf
	cmd.Stderr = &buf
	_ = cmd.Run()
	secs = time.Since(start).Seconds()
	out = buf.String()
	first := strings.TrimSpace(strings.SplitN(out, "\n", 2)[0])
	switch first {
	case "sat", "unsat", "unknown", "timeout":
		return first, out, secs
	}
	if cctx.Err() != nil {
		return "timeout", out, secs
	}
	if strings.Contains(out, "timeout") || strings.Contains(out, "interrupted") {
		return "timeout", out, secs
	}
	return "error", out, secs
}

// forget drops the in-process answer for an obligation's query (used before a retry with a longer limit).
func (e *Engine) forget(o *Obligation) {
	script, _ := e.buildScript(o, false)
	h := sha256.Sum256([]byte(script))
	scache.mu.Lock()
	delete(scache.m, h)
	scache.mu.Unlock()
}

func (e *Engine) solve(o *Obligation, outDir string, idx int, timeoutS int, both bool) *SolveResult {
	if o.PC0 != nil {
		return e.solveConsistency(o, outDir, idx, timeoutS)
	}
	script, d := e.buildScript(o, false)
	res := &SolveResult{Bytes: len(script)}
	if outDir == "" {
		outDir = os.TempDir()
	}
	// The query is written to disk only when a solver has to read it, and kept only when it was not discharged
	// (GOVC_KEEP_VC=1 keeps everything): tens of thousands of queries of up to 200 kB each fill a disk otherwise.
	vcFile := filepath.Join(outDir, fmt.Sprintf("%05d.smt2", idx))
	writeVC := func() {
		res.File = vcFile
		_ = os.WriteFile(vcFile, []byte("; "+o.Name()+"\n; "+o.Pos+"\n"+script), 0o644)
	}
	if len(script) > vcCap() {
		writeVC()
		res.Status = "toolarge"
		return res
	}
	h := sha256.Sum256([]byte(script))
	scache.mu.Lock()
	if c, ok := scache.m[h]; ok {
		scache.mu.Unlock()
		r := *c
		if !((r.Status == "unsat" && !o.Cover) || (r.Status == "sat" && o.Cover)) {
			writeVC()
			r.File = res.File
		}
		return &r
	}
	scache.mu.Unlock()

	// on-disk memo of discharged queries: the key is the hash of the complete SMT-LIB script generated from the
	// current tree, so only a byte-identical query (same code, same contracts, same encoder) is ever reused.
	// Only `unsat` answers (and `sat` for reachability queries, which need no model) are stored.
	cacheFile := ""
	if dir := diskCacheDir(); dir != "" {
		cacheFile = filepath.Join(dir, fmt.Sprintf("%x", h[:16]))
		if b, err := os.ReadFile(cacheFile); err == nil {
			parts := strings.SplitN(strings.TrimSpace(string(b)), " ", 3)
			if len(parts) == 3 && (parts[0] == "unsat" || (parts[0] == "sat" && o.Cover)) {
				var secs float64
				fmt.Sscanf(parts[1], "%f", &secs)
				res.Status, res.Solver, res.Seconds = parts[0], parts[2]+" [memo]", secs
				res.Detail = res.Solver + ": " + parts[0] + " (memo of an identical query)"
				scache.mu.Lock()
				scache.m[h] = res
				scache.mu.Unlock()
				return res
			}
		}
	}

	var use []solverSpec
	for _, sp := range solvers {
		if sp.noLambda && d.hasLam {
			continue
		}
		use = append(use, sp)
	}
	writeVC()
	ctx, cancel := context.WithCancel(context.Background())
	defer cancel()
	type ans struct {
		sp     solverSpec
		status string
		out    string
		secs   float64
	}
	nproc := len(use)
	ch := make(chan ans, len(use)+2)
	for _, sp := range use {
		go func(sp solverSpec) {
			s, out, secs := runSolver(ctx, sp, res.File, timeoutS)
			ch <- ans{sp, s, out, secs}
		}(sp)
	}
	if d.hasStr && !o.Cover {
		// the string-abstracted query: only `unsat` is meaningful
		ascript, _ := e.buildScript(o, true)
		afile := strings.TrimSuffix(res.File, ".smt2") + ".abs.smt2"
		_ = os.WriteFile(afile, []byte("; string-abstracted: "+o.Name()+"\n"+ascript), 0o644)
		for _, sp := range solvers[:2] {
			nproc++
			go func(sp solverSpec) {
				s, out, secs := runSolver(ctx, sp, afile, timeoutS)
				if s == "sat" {
					s = "unknown"
				}
				sp.name += "+strabs"
				ch <- ans{sp, s, out, secs}
			}(sp)
		}
	}
	var details []string
	final := "unknown"
	for i := 0; i < nproc; i++ {
		a := <-ch
		details = append(details, fmt.Sprintf("%s: %s (%.2fs)", a.sp.name, a.status, a.secs))
		if a.status == "sat" || a.status == "unsat" {
			res.Status, res.Solver, res.Seconds = a.status, a.sp.name, a.secs
			if a.status == "sat" {
				if i := strings.Index(a.out, "\n"); i >= 0 {
					res.Model = strings.TrimSpace(a.out[i+1:])
				}
			}
			cancel()
			final = ""
			break
		}
		if a.status == "error" {
			details = append(details, "   "+firstLines(a.out, 3))
		}
		if a.status == "timeout" {
			final = "timeout"
		}
	}
	if final != "" {
		res.Status = final
	}
	res.Detail = strings.Join(details, "; ")
	// reachability (cover) queries need only the answer `sat`, no model: they are memoised too
	if cacheFile != "" && (res.Status == "unsat" || (res.Status == "sat" && o.Cover)) {
		_ = os.WriteFile(cacheFile, []byte(fmt.Sprintf("%s %.3f %s\n", res.Status, res.Seconds, res.Solver)), 0o644)
	}
	if ((res.Status == "unsat" && !o.Cover) || (res.Status == "sat" && o.Cover)) && os.Getenv("GOVC_KEEP_VC") == "" {
		_ = os.Remove(res.File)
		_ = os.Remove(strings.TrimSuffix(res.File, ".smt2") + ".abs.smt2")
		res.File = ""
	}
	scache.mu.Lock()
	scache.m[h] = res
	scache.mu.Unlock()
	return res
}

var diskCacheOnce sync.Once
var diskCachePath string

// diskCacheDir: GOVC_MEMO=off disables the memo; GOVC_MEMO=<dir> relocates it (default /verif/out/memo).
func diskCacheDir() string {
	diskCacheOnce.Do(func() {
		d := os.Getenv("GOVC_MEMO")
		if d == "off" {
			return
		}
		if d == "" {
			d = "/verif/out/memo"
		}
		if err := os.MkdirAll(d, 0o755); err == nil {
			diskCachePath = d
		}
	})
	return diskCachePath
}

func firstLines(s string, n int) string {
	ls := strings.Split(strings.TrimSpace(s), "\n")
	if len(ls) > n {
		ls = ls[:n]
	}
	return strings.Join(ls, " | ")
}

// lemmaInstances: see lemmas.go

// vcCap: queries larger than this are not sent to the solvers (status toolarge). 2 MB by default; GOVC_VC_CAP overrides (dev).
func vcCap() int {
	if v := os.Getenv("GOVC_VC_CAP"); v != "" {
		if n, err := strconv.Atoi(v); err == nil {
			return n
		}
	}
	return 2000000
}

// solveConsistency decides a consistent.* guard: if the path condition before the clauses were evaluated is
// satisfiable, the one after must be too. Reported as "unsat" (discharged) when consistent or when the path is not
// known to be reachable, as "sat" when the evaluation of the contract made a reachable path contradictory.
func (e *Engine) solveConsistency(o *Obligation, outDir string, idx int, timeoutS int) *SolveResult {
	before := &Obligation{Fn: o.Fn, Kind: o.Kind + ".before", PC: o.PC0, Goal: False, Cover: true, PathID: o.PathID}
	r0 := e.solve(before, outDir, idx, timeoutS, false)
	if r0.Status != "sat" {
		return &SolveResult{Status: "unsat", Solver: r0.Solver, Seconds: r0.Seconds, Detail: "path not known to be reachable (" + r0.Status + "): nothing to compare"}
	}
	after := &Obligation{Fn: o.Fn, Kind: o.Kind + ".after", PC: o.PC, Goal: False, Cover: true, PathID: o.PathID}
	r1 := e.solve(after, outDir, 500000+idx, timeoutS, false)
	switch r1.Status {
	case "sat":
		return &SolveResult{Status: "unsat", Solver: r1.Solver, Seconds: r0.Seconds + r1.Seconds, Detail: "reachable before and after the clauses were evaluated"}
	case "unsat":
		return &SolveResult{Status: "sat", Solver: r1.Solver, Seconds: r0.Seconds + r1.Seconds, File: r1.File,
			Detail: "ENGINE INCONSISTENCY: the path is reachable, but the facts assumed while evaluating the contract's clauses contradict it; every obligation of this path would hold vacuously"}
	}
	return &SolveResult{Status: "unsat", Solver: r1.Solver, Seconds: r0.Seconds + r1.Seconds, Detail: "undecided after the clauses were evaluated (" + r1.Status + "): no inconsistency shown"}
}
