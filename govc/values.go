package main

// Symbolic values and the mapping from Go types to SMT components.

import (
	"sort"
	"hash/fnv"
	"fmt"
	"go/types"
	"math/big"
	"strings"

	"golang.org/x/tools/go/ssa"
)

type Value interface{}

type SliceV struct {
	Ref, Off, Len, Cap *Term
	Elem               types.Type
}

type IfaceV struct{ Tag, Val *Term }

type StructV struct {
	T types.Type
	F []Value
}

type TupleV []Value

type Cell struct {
	id   int
	name string
	T    types.Type
}

// CellPtr points at (a field path inside) a non-escaping local.
type CellPtr struct {
	C    *Cell
	Path []int
}

// FieldPtr points at a non-struct field of a heap object.
type FieldPtr struct {
	Obj   *Term
	Owner *types.Named
	Idx   int
}

// ElemPtr points at an element of a slice/array backing store.
type ElemPtr struct {
	Ref, Idx *Term
	Elem     types.Type
	Path     []int // field path inside a struct element
}

// MapIterV is the iterator of a range over a Go map; its visited set lives in State.ghostV[Key].
type MapIterV struct {
	Key  string
	Addr *Term
	MT   *types.Map
}

// ClosureV is a function value known at verification time.
type ClosureV struct {
	Fn   *ssa.Function
	Bind []Value
}

const modPath = "github.com/hack-pad/hackpadfs"

func shortType(s string) string {
	s = strings.ReplaceAll(s, modPath+"/", "")
	s = strings.ReplaceAll(s, modPath, "hackpadfs")
	return s
}

func typeStr(t types.Type) string { return shortType(types.TypeString(canonType(t), nil)) }

// canonType removes aliases (hackpadfs.PathError = io/fs.PathError etc.) below pointers, slices and arrays too.
func canonType(t types.Type) types.Type {
	t = types.Unalias(t)
	switch u := t.(type) {
	case *types.Pointer:
		if e := canonType(u.Elem()); e != u.Elem() {
			return types.NewPointer(e)
		}
	case *types.Slice:
		if e := canonType(u.Elem()); e != u.Elem() {
			return types.NewSlice(e)
		}
	case *types.Array:
		if e := canonType(u.Elem()); e != u.Elem() {
			return types.NewArray(e, u.Len())
		}
	}
	return t
}

func isNamed(t types.Type, pkg, name string) bool {
	n, ok := t.(*types.Named)
	if !ok {
		if a, ok2 := t.(*types.Alias); ok2 {
			return isNamed(types.Unalias(a), pkg, name)
		}
		return false
	}
	o := n.Obj()
	return o.Name() == name && o.Pkg() != nil && o.Pkg().Path() == pkg
}

func isErrorType(t types.Type) bool {
	return types.Identical(types.Unalias(t), types.Universe.Lookup("error").Type())
}

func isFileMode(t types.Type) bool { return isNamed(types.Unalias(t), "io/fs", "FileMode") }
func isTime(t types.Type) bool     { return isNamed(types.Unalias(t), "time", "Time") }

// opaqueStruct: by-value library structs that are only ever used through their address.
func isOpaqueStruct(t types.Type) bool {
	t = types.Unalias(t)
	for _, n := range [][2]string{{"sync", "Mutex"}, {"sync", "RWMutex"}, {"sync", "Map"}, {"sync", "Once"}, {"sync", "WaitGroup"}, {"sync/atomic", "Value"}} {
		if isNamed(t, n[0], n[1]) {
			return true
		}
	}
	return false
}

type comp struct {
	suffix string
	sort   *Sort
	T      types.Type // Go type of the scalar leaf (for range assumptions)
	kind   string     // "int","bool","string","ptr","tag","val","ref","off","len","cap","bv","time"
}

func scalarSort(t types.Type) (*Sort, string) {
	t = types.Unalias(t)
	if isFileMode(t) {
		return BV32S, "bv"
	}
	if isTime(t) {
		return IntS, "time"
	}
	switch u := t.Underlying().(type) {
	case *types.Basic:
		switch {
		case u.Info()&types.IsBoolean != 0:
			return BoolS, "bool"
		case u.Info()&types.IsString != 0:
			return StringS, "string"
		case u.Info()&types.IsInteger != 0:
			return IntS, "int"
		case u.Kind() == types.UnsafePointer:
			return IntS, "ptr"
		case u.Kind() == types.UntypedNil:
			return IntS, "ptr"
		}
		return IntS, "int"
	case *types.Pointer, *types.Map, *types.Chan, *types.Signature:
		return IntS, "ptr"
	}
	return nil, ""
}

var compCache = map[string][]comp{}

// comps flattens a Go type into scalar SMT components.
func comps(t types.Type) []comp {
	k := types.TypeString(t, nil)
	if c, ok := compCache[k]; ok {
		return c
	}
	c := comps0(t)
	compCache[k] = c
	return c
}

func comps0(t types.Type) []comp {
	t = types.Unalias(t)
	if s, kind := scalarSort(t); s != nil {
		return []comp{{"", s, t, kind}}
	}
	if isOpaqueStruct(t) {
		return nil
	}
	switch u := t.Underlying().(type) {
	case *types.Slice:
		return []comp{{".ref", IntS, t, "ref"}, {".off", IntS, t, "off"}, {".len", IntS, t, "len"}, {".cap", IntS, t, "cap"}}
	case *types.Interface:
		return []comp{{".tag", IntS, t, "tag"}, {".val", IntS, t, "val"}}
	case *types.Struct:
		var out []comp
		for i := 0; i < u.NumFields(); i++ {
			f := u.Field(i)
			for _, c := range comps(f.Type()) {
				out = append(out, comp{"." + f.Name() + c.suffix, c.sort, c.T, c.kind})
			}
		}
		return out
	case *types.Array:
		return []comp{{"", IntS, t, "ptr"}} // arrays are referenced by object id
	case *types.Tuple:
		return nil
	}
	panic("comps: unsupported type " + t.String())
}

// toComps flattens a value of type t.
func toComps(t types.Type, v Value) []*Term {
	t = types.Unalias(t)
	switch x := v.(type) {
	case *Term:
		return []*Term{x}
	case SliceV:
		return []*Term{x.Ref, x.Off, x.Len, x.Cap}
	case IfaceV:
		return []*Term{x.Tag, x.Val}
	case StructV:
		if isOpaqueStruct(t) {
			return nil
		}
		st := t.Underlying().(*types.Struct)
		var out []*Term
		for i := 0; i < st.NumFields(); i++ {
			out = append(out, toComps(st.Field(i).Type(), x.F[i])...)
		}
		return out
	case nil:
		return nil
	}
	panic(fmt.Sprintf("toComps: cannot flatten %T as %s", v, t))
}

// fromComps rebuilds a value of type t from components (consumes from ts).
func fromComps(t types.Type, ts []*Term) (Value, []*Term) {
	t = types.Unalias(t)
	if s, _ := scalarSort(t); s != nil {
		return ts[0], ts[1:]
	}
	if isOpaqueStruct(t) {
		return StructV{T: t}, ts
	}
	switch u := t.Underlying().(type) {
	case *types.Slice:
		return SliceV{ts[0], ts[1], ts[2], ts[3], u.Elem()}, ts[4:]
	case *types.Interface:
		return IfaceV{ts[0], ts[1]}, ts[2:]
	case *types.Struct:
		sv := StructV{T: t}
		for i := 0; i < u.NumFields(); i++ {
			var f Value
			f, ts = fromComps(u.Field(i).Type(), ts)
			sv.F = append(sv.F, f)
		}
		return sv, ts
	case *types.Array:
		return ts[0], ts[1:]
	}
	panic("fromComps: unsupported type " + t.String())
}

func zeroTerm(c comp) *Term {
	switch c.sort.Kind {
	case SBool:
		return False
	case SInt:
		return IntLit(0)
	case SString:
		return StrLit("")
	case SBV:
		return BVLit(0, c.sort.W)
	}
	panic("zeroTerm")
}

func zeroValue(t types.Type) Value {
	cs := comps(t)
	ts := make([]*Term, len(cs))
	for i, c := range cs {
		ts[i] = zeroTerm(c)
	}
	v, _ := fromComps(t, ts)
	return v
}

var (
	minInt64 = new(big.Int).Lsh(big.NewInt(-1), 63)
	maxInt64 = new(big.Int).Sub(new(big.Int).Lsh(big.NewInt(1), 63), big.NewInt(1))
	maxLen   = new(big.Int).Lsh(big.NewInt(1), 62)
)

func intRange(t types.Type) (lo, hi *big.Int, ok bool) {
	b, isb := types.Unalias(t).Underlying().(*types.Basic)
	if !isb || b.Info()&types.IsInteger == 0 {
		return nil, nil, false
	}
	bits := 64
	switch b.Kind() {
	case types.Int8, types.Uint8:
		bits = 8
	case types.Int16, types.Uint16:
		bits = 16
	case types.Int32, types.Uint32:
		bits = 32
	}
	if b.Info()&types.IsUnsigned != 0 {
		return big.NewInt(0), new(big.Int).Sub(new(big.Int).Lsh(big.NewInt(1), uint(bits)), big.NewInt(1)), true
	}
	return new(big.Int).Neg(new(big.Int).Lsh(big.NewInt(1), uint(bits-1))), new(big.Int).Sub(new(big.Int).Lsh(big.NewInt(1), uint(bits-1)), big.NewInt(1)), true
}

// constTop records, for havocked heap arrays and fresh symbolic values, the
// allocation frontier at the time they came into existence: every reference
// read out of them is below that frontier. Entry arrays default to "heaptop".
var constTop = map[string]*Term{}

// topOf finds the frontier that bounds a reference term read from the heap.
func topOf(x *Term, def *Term) *Term {
	t := x
	for depth := 0; depth < 64; depth++ {
		switch t.Op {
		case "select":
			// a cell at an address that may itself be fresh (a call result, a new object) is only
			// bounded by the current frontier
			if mentionsFresh(t.Args[1], 0) {
				return def
			}
			t = t.Args[0]
		case "store":
			t = t.Args[0]
		case "def":
			t = t.Args[0]
		case "ite":
			return def
		case "const":
			if tp, ok := constTop[t.Name]; ok {
				return tp
			}
			if !strings.Contains(t.Name, "!") {
				return Const("heaptop", IntS)
			}
			return def
		default:
			return def
		}
	}
	return def
}

// mentionsFresh: the address term is not known to denote an object that existed at entry.
func mentionsFresh(t *Term, depth int) bool {
	return !boundedByEntry(t, depth)
}

func boundedByEntry(t *Term, depth int) bool {
	if depth > 12 {
		return false
	}
	switch t.Op {
	case "const":
		return strings.HasPrefix(t.Name, "in|")
	case "int":
		return true
	case "ite":
		return len(t.Args) == 3 && boundedByEntry(t.Args[1], depth+1) && boundedByEntry(t.Args[2], depth+1)
	case "select":
		a := t.Args[0]
		if a.Op != "const" || strings.Contains(a.Name, "!") {
			return false
		}
		if _, ok := constTop[a.Name]; ok {
			return false
		}
		return boundedByEntry(t.Args[1], depth+1)
	}
	return false
}

// typeFacts returns the well-typedness facts of a value (ranges, slice shape).
func typeFacts(t types.Type, v Value, heaptop0 *Term) []*Term {
	t = types.Unalias(t)
	var out []*Term
	var heaptop *Term
	if heaptop0 != nil {
		switch x := v.(type) {
		case *Term:
			heaptop = topOf(x, heaptop0)
		case SliceV:
			heaptop = topOf(x.Ref, heaptop0)
			if _, _, fresh := allocInfo(x.Ref); fresh {
				heaptop = nil // an object allocated on this path lies above every earlier frontier: no upper bound is stated
			}
		case IfaceV:
			heaptop = topOf(x.Val, heaptop0)
			if _, _, fresh := allocInfo(x.Val); fresh {
				// (the payload of an error this function built itself, reached through errors.Is unfolding, was once bounded by
				// the *entry* frontier: the path condition became contradictory and every clause held vacuously on such paths)
				heaptop = nil
			}
		}
	}
	switch x := v.(type) {
	case *Term:
		if x.Op == "int" || x.Op == "str" || x.Op == "bool" || x.Op == "bv" {
			return nil
		}
		if _, _, ok := allocInfo(x); ok {
			return nil
		}
		if x.Sort.Kind == SInt {
			_, kind := scalarSort(t)
			switch kind {
			case "int":
				if lo, hi, ok := intRange(t); ok {
					out = append(out, Le(BigLit(lo), x), Le(x, BigLit(hi)))
				}
			case "ptr":
				out = append(out, Le(IntLit(0), x))
				if heaptop != nil {
					out = append(out, Le(x, heaptop))
				}
			}
		}
	case SliceV:
		out = append(out, Le(IntLit(0), x.Off), Le(IntLit(0), x.Len), Le(x.Len, x.Cap), Le(x.Cap, BigLit(maxLen)), Le(x.Off, BigLit(maxLen)), Le(IntLit(0), x.Ref))
		if heaptop != nil {
			out = append(out, Le(x.Ref, heaptop))
		}
		// nil slice: ref 0 has no elements
		out = append(out, Implies(Eq(x.Ref, IntLit(0)), And(Eq(x.Cap, IntLit(0)), Eq(x.Off, IntLit(0)))))
	case IfaceV:
		out = append(out, Le(IntLit(0), x.Tag), Implies(Eq(x.Tag, IntLit(0)), Eq(x.Val, IntLit(0))))
		if it, ok := t.Underlying().(*types.Interface); ok && it.NumMethods() > 0 {
			// a value of interface type I is nil or its dynamic type implements I
			ifaceReg[typeStr(t)] = t
			if x.Tag.IsInt() {
				// literal tags are decided by go/types where they are produced
			} else {
				out = append(out, Or(Eq(x.Tag, IntLit(0)), App("impl|"+typeStr(t), BoolS, x.Tag)))
			}
		}
		if isErrorType(t) {
			// error values holding a *PathError / *LinkError hold a non-nil pointer (typed-nil errors are excluded)
			for _, pt := range errPtrTags {
				out = append(out, Implies(Eq(x.Tag, pt), Le(IntLit(1), x.Val)))
			}
		}
		if t2, ok := t.Underlying().(*types.Interface); ok && t2.NumMethods() > 0 && !isErrorType(t) {
			// non-empty, non-error interfaces in this code base hold pointer-shaped or boxed payloads
			out = append(out, Le(IntLit(0), x.Val))
		}
		if heaptop != nil {
			out = append(out, Le(x.Val, heaptop))
		}
	case StructV:
		if st, ok := t.Underlying().(*types.Struct); ok && !isOpaqueStruct(t) {
			for i := 0; i < st.NumFields() && i < len(x.F); i++ {
				out = append(out, typeFacts(st.Field(i).Type(), x.F[i], heaptop0)...)
			}
		}
	}
	var res []*Term
	for _, f := range out {
		if !f.IsTrue() {
			res = append(res, f)
		}
	}
	return res
}

var errPtrTags []*Term

// ---- dynamic type tags ----

type tagReg struct {
	ids    map[string]int
	types  []types.Type // dense ids 1..len(types): numbered up front in sorted order (engine load)
	late   map[int]types.Type
	frozen bool // after engine load: further types get a content-derived id
}

var tags = &tagReg{ids: map[string]int{}, late: map[int]types.Type{}}

// id: types numbered at engine load have small dense ids; a type first met during symbolic execution gets an
// id derived from its name (so that the generated queries do not depend on the order of exploration).
func (r *tagReg) id(t types.Type) int {
	t = canonType(t)
	k := types.TypeString(t, nil)
	if id, ok := r.ids[k]; ok {
		return id
	}
	return r.register(k, t)
}

func (r *tagReg) register(k string, t types.Type) int {
	if !r.frozen {
		r.types = append(r.types, t)
		id := len(r.types)
		r.ids[k] = id
		return id
	}
	h := fnv.New32a()
	h.Write([]byte(k))
	id := 1000000 + int(h.Sum32()%900000000)
	for r.late[id] != nil {
		id++ // collision between two late types (astronomically rare): next free id
	}
	r.late[id] = t
	r.ids[k] = id
	return id
}

func (r *tagReg) typeOf(id int) types.Type {
	if id >= 1 && id <= len(r.types) {
		return r.types[id-1]
	}
	return r.late[id]
}

// all returns every registered (id, type) in increasing id order.
func (r *tagReg) all() (ids []int, ts []types.Type) {
	for i, t := range r.types {
		ids = append(ids, i+1)
		ts = append(ts, t)
	}
	var lateIDs []int
	for id := range r.late {
		lateIDs = append(lateIDs, id)
	}
	sort.Ints(lateIDs)
	for _, id := range lateIDs {
		ids = append(ids, id)
		ts = append(ts, r.late[id])
	}
	return
}

func tagTerm(t types.Type) *Term { return IntLit(int64(tags.id(t))) }

// payloadIsValue: dynamic types whose interface payload is the value itself
// (pointer-shaped or a basic integer such as syscall.Errno), not a box.
func payloadIsValue(t types.Type) bool {
	s, kind := scalarSort(t)
	return s != nil && s.Kind == SInt && (kind == "ptr" || kind == "int" || kind == "time")
}
