package main

// govc check: decide one property — verify every function whose contract is tagged
// with it, discharge the obligations, apply known findings, replay models, write evidence.

import (
	"encoding/json"
	"flag"
	"fmt"
	"go/parser"
	"go/types"
	"golang.org/x/tools/go/ssa"
	"os"
	"path/filepath"
	"sort"
	"strings"
	"time"
)

type KnownFinding struct {
	Property   string `json:"property"`
	Obligation string `json:"obligation"` // <func>:<kind>
	Excluding  string `json:"excluding,omitempty"`
	What       string `json:"what"`
}

type KnownFile struct {
	Findings []KnownFinding `json:"findings"`
	Fixed    []string       `json:"fixed"`
}

type oblGroup struct {
	name    string
	fn      string
	kind    string
	cover   bool
	results []oblResult
	ok      bool
	status  string
}

type Evidence struct {
	PropertyID  string                 `json:"property_id"`
	Tier        string                 `json:"tier"`
	Seed        int                    `json:"seed"`
	Level       string                 `json:"level"`
	Coverage    map[string]interface{} `json:"coverage"`
	Assumptions []string               `json:"assumptions"`
	WallS       float64                `json:"wall_s"`
	Violations  int                    `json:"violations"`
}

func hasProp(props []string, id string) bool {
	for _, p := range props {
		if p == id {
			return true
		}
	}
	return false
}

func cmdCheck(args []string) {
	fs := flag.NewFlagSet("check", flag.ExitOnError)
	repo := fs.String("repo", "/repo", "repository")
	prop := fs.String("prop", "", "property id")
	tier := fs.String("tier", "quick", "quick|thorough")
	evPath := fs.String("evidence", "", "evidence file")
	anchors := fs.Bool("anchors", true, "also select every function under contract defined in the property's anchor files")
	propsFile := fs.String("properties", "/verif/properties.jsonl", "the given properties (anchors)")
	closure := fs.Bool("closure", true, "also prove the contracts of the repository callees the selected functions rely on")
	knownPath := fs.String("known", "/verif/known_findings.json", "known findings file")
	outDir := fs.String("out", "", "output dir")
	level := fs.String("level", "proof", "evidence level")
	seed := fs.Int("seed", 0, "seed")
	fs.Parse(args)
	if *prop == "" {
		fmt.Fprintln(os.Stderr, "check: -prop required")
		os.Exit(2)
	}
	if *outDir == "" {
		*outDir = "/verif/out/" + *prop
	}
	if *evPath == "" {
		*evPath = "/verif/evidence/" + *prop + ".json"
	}
	timeoutS := 20
	if *tier == "thorough" {
		timeoutS = 60
	}
	t0 := time.Now()
	os.RemoveAll(*outDir)
	os.MkdirAll(*outDir+"/vc", 0o755)
	os.MkdirAll(filepath.Dir(*evPath), 0o755)

	violations := 0
	var vlines []string
	report := func(replay string, suffix string) {
		violations++
		l := fmt.Sprintf("VIOLATION property=%s replay=%s%s", *prop, replay, suffix)
		vlines = append(vlines, l)
		fmt.Println(l)
	}

	writeReplay := func(name string, content map[string]interface{}) string {
		p := filepath.Join(*outDir, "replay-"+sanitize(name)+".json")
		b, _ := json.MarshalIndent(content, "", " ")
		os.WriteFile(p, b, 0o644)
		return p
	}

	// last line of defence: whatever goes wrong inside the checker on a changed tree, the run ends with a verdict line
	// and exit 1 (nothing is decided, which is reported as a violation without an input), never with a crash
	defer func() {
		if r := recover(); r != nil {
			p := writeReplay("checker-failure", map[string]interface{}{"obligation": "checker", "error": fmt.Sprint(r),
				"note": "the checker failed on this tree; no obligation was decided. On the unchanged tree this does not happen."})
			fmt.Println("govc: internal failure:", r)
			report(p, " no-failing-input-found")
			writeEvidence(*evPath, &Evidence{PropertyID: *prop, Tier: *tier, Seed: *seed, Level: *level, WallS: time.Since(t0).Seconds(), Violations: 1,
				Coverage: map[string]interface{}{"obligations": 1, "discharged": 0, "checker_cmd": strings.Join(os.Args, " "), "trusted_base": []string{}, "explanation": "checker failure: " + fmt.Sprint(r), "evaluations": 1, "distinct_nontrivial": 0}})
			os.Exit(1)
		}
	}()
	eng, err := loadEngine(*repo)
	if err != nil {
		// the tree does not load (or a contract no longer parses against it): nothing can be decided
		p := writeReplay("load-error", map[string]interface{}{"obligation": "load", "error": err.Error()})
		fmt.Println("govc: cannot load repository / contracts:", err)
		report(p, " no-failing-input-found")
		writeEvidence(*evPath, &Evidence{PropertyID: *prop, Tier: *tier, Seed: *seed, Level: *level, WallS: time.Since(t0).Seconds(), Violations: 1,
			Coverage: map[string]interface{}{"obligations": 1, "discharged": 0, "checker_cmd": strings.Join(os.Args, " "), "trusted_base": []string{}, "explanation": "load error: " + err.Error(), "evaluations": 1, "distinct_nontrivial": 0}})
		os.Exit(1)
	}
	var known KnownFile
	if b, err := os.ReadFile(*knownPath); err == nil {
		if err := json.Unmarshal(b, &known); err != nil {
			fmt.Fprintln(os.Stderr, "bad known-findings file:", err)
			os.Exit(2)
		}
	}

	// select functions: those whose contract (or one of whose clauses) is tagged with the property, and every function
	// under contract that is defined in one of the files the property is anchored in (properties.jsonl): hand-kept tags
	// alone left functions out that a property plainly is about (the Sub views and mount operations under C03, the os
	// operations under C07 - found by seeded changes that the check of the property itself did not notice)
	anchorFiles := map[string]bool{}
	if *anchors {
		if b, err := os.ReadFile(*propsFile); err == nil {
			for _, line := range strings.Split(string(b), "\n") {
				var p struct {
					ID      string `json:"id"`
					Anchors struct {
						Files []string `json:"files"`
					} `json:"anchors"`
				}
				if json.Unmarshal([]byte(line), &p) == nil && p.ID == *prop {
					for _, f := range p.Anchors.Files {
						anchorFiles[f] = true
					}
				}
			}
		}
	}
	var keys []string
	var viaAnchor []string
	for _, k := range sortedKeys(eng.cs.Funcs) {
		c := eng.cs.Funcs[k]
		tagged := hasProp(c.Props, *prop)
		if !tagged && len(anchorFiles) > 0 {
			if fn := eng.funcs[k]; fn != nil && fn.Pos().IsValid() {
				file := eng.prog.Fset.Position(fn.Pos()).Filename
				if rel, err := filepath.Rel(*repo, file); err == nil && anchorFiles[filepath.ToSlash(rel)] && !c.Iface && c.Assumed == "" && !c.Inline {
					tagged = true
					viaAnchor = append(viaAnchor, calleeShort(k))
				}
			}
		}
		for _, en := range c.Ensures {
			if hasProp(en.Props, *prop) {
				tagged = true
			}
		}
		if tagged {
			keys = append(keys, k)
		}
	}
	var allObls []*Obligation
	var funcsUnder, assumedContracts, notes []string
	noteSet := map[string]bool{}
	frByKey := map[string]*FuncResult{}
	// callee closure: a function's proof applies the contracts of the repository functions it calls; those
	// contracts are proved in the same check (all their obligations), whatever properties they are tagged with -
	// otherwise a change inside a callee would only be noticed by the check of the property its contract happens to name
	viaClosure := map[string]bool{}
	inKeys := map[string]bool{}
	for _, k := range keys {
		inKeys[k] = true
	}
	knownAnywhere := map[string]bool{}
	for _, kf := range known.Findings {
		knownAnywhere[kf.Obligation] = true
	}
	var closureSkipped []string
	var removedHelpers []string
	for ki := 0; ki < len(keys); ki++ {
		k := keys[ki]
		fr := eng.verifyFunc(k)
		if *closure {
			for _, ck := range fr.Callees {
				cc := eng.cs.Funcs[ck]
				if cc == nil || cc.Iface || cc.Assumed != "" || cc.Inline || inKeys[ck] {
					continue
				}
				inKeys[ck] = true
				viaClosure[ck] = true
				keys = append(keys, ck)
			}
		}
		frByKey[calleeShort(k)] = fr
		if fr.Assumed {
			assumedContracts = append(assumedContracts, calleeShort(k))
			continue
		}
		funcsUnder = append(funcsUnder, calleeShort(k))
		for _, n := range fr.Notes {
			if !noteSet[n] {
				noteSet[n] = true
				notes = append(notes, n)
			}
		}
		if fr.Missing && unexportedName(cfnName(eng, k)) {
			// an unexported helper that was inlined into its callers, renamed or removed by a refactor: its contract was
			// proof scaffolding. Nothing is claimed for it; its former callers are verified with whatever replaced it
			// (repository functions without a contract are executed in place), so their own clauses still decide.
			removedHelpers = append(removedHelpers, calleeShort(k))
			funcsUnder = funcsUnder[:len(funcsUnder)-1]
			continue
		}
		if fr.Err != "" {
			p := writeReplay(calleeShort(k)+"-engine", map[string]interface{}{"obligation": calleeShort(k) + ":verifiable", "error": fr.Err,
				"note": "the function could not be brought under its contract on this tree (missing function, contract no longer type-checks, missing invariant, or unsupported construct); every obligation of it is undischarged"})
			fmt.Printf("UNDISCHARGED %s: %s\n", calleeShort(k), fr.Err)
			report(p, " no-failing-input-found")
			continue
		}
		n := 0
		// Every obligation of a selected function belongs to the check, whatever property tags its clauses carry: the
		// tags decide which functions a property is about, not which of their clauses may be broken unnoticed (clause
		// tags once left `cache.dir.ReadDir:eof`, tagged C16, out of the C10 check that pages through the same handle).
		// The only exception: an obligation recorded as a known finding of another property is reported there.
		knownHere := map[string]bool{}
		for _, kf := range known.Findings {
			if kf.Property == *prop {
				knownHere[kf.Obligation] = true
			}
		}
		for _, o := range fr.Obls {
			if knownAnywhere[o.Name()] && !knownHere[o.Name()] {
				closureSkipped = append(closureSkipped, o.Name())
				n++
				continue
			}
			allObls = append(allObls, o)
			n++
		}
		if n == 0 {
			p := writeReplay(calleeShort(k)+"-vacuous", map[string]interface{}{"obligation": calleeShort(k) + ":nonvacuous", "error": "function under contract generated no obligation"})
			report(p, " no-failing-input-found")
		}
	}
	for _, k := range sortedKeys(renamedFields) {
		n := "renamed field: " + k
		if !noteSet[n] {
			noteSet[n] = true
			notes = append(notes, n)
		}
	}
	// type-level obligations
	writerObls, writerFails := eng.checkWriters(*prop)
	for _, f := range writerFails {
		p := writeReplay("writers-"+sanitize(f), map[string]interface{}{"obligation": f, "error": "a function without a contract writes a sync.Map that the contracts of this property track as ghost state; what it stores is unchecked"})
		fmt.Printf("UNDISCHARGED %s\n", f)
		report(p, " no-failing-input-found")
	}
	// repository implementations of contracted interface methods must themselves be under contract (in the
	// packages this property has functions in)
	propPkgs := map[string]bool{}
	for _, k := range keys {
		if c := eng.cs.Funcs[k]; c != nil {
			propPkgs[c.Pkg] = true
		}
	}
	var implFails []string
	for _, l := range eng.uncontractedImpls(*prop) {
		fnName := strings.SplitN(l, " implements ", 2)[0]
		inPkg := false
		for pk := range propPkgs {
			short := calleeShort(pk + ".x")
			short = strings.TrimSuffix(short, "x")
			if short == "" || strings.HasPrefix(fnName, short) || (short == "." && !strings.Contains(strings.SplitN(fnName, "(", 2)[0], ".")) {
				inPkg = true
			}
		}
		if !inPkg {
			continue
		}
		implFails = append(implFails, l)
		p := writeReplay("impl-"+sanitize(fnName), map[string]interface{}{"obligation": fnName + ":impl-under-contract", "error": "a repository type implements an interface method that the contracts only assume (interface contract); the method itself has no contract: " + l})
		fmt.Printf("UNDISCHARGED %s:impl-under-contract (%s)\n", fnName, l)
		report(p, " no-failing-input-found")
	}
	lackObls, lackFails := eng.checkLacks(*prop)
	for _, f := range lackFails {
		p := writeReplay("lacks-"+f, map[string]interface{}{"obligation": f, "error": "method-set obligation failed (go/types)"})
		report(p, " no-failing-input-found")
	}

	rs := eng.discharge(allObls, *outDir+"/vc", timeoutS, 10)
	groups := map[string]*oblGroup{}
	var order []string
	for _, r := range rs {
		name := r.o.Name()
		g := groups[name]
		if g == nil {
			g = &oblGroup{name: name, fn: r.o.Fn, kind: r.o.Kind, cover: r.o.Cover, ok: true}
			groups[name] = g
			order = append(order, name)
		}
		g.results = append(g.results, r)
		if r.o.Cover {
			continue
		}
		if r.r.Status != "unsat" {
			g.ok = false
			if g.status == "" || r.r.Status == "sat" {
				g.status = r.r.Status
			}
		}
	}
	// cover obligations: reachable on at least one path
	for _, g := range groups {
		if !g.cover {
			continue
		}
		g.ok = false
		g.status = "unreachable"
		for _, r := range g.results {
			if r.r.Status == "sat" {
				g.ok = true
			}
		}
	}
	sort.Strings(order)

	byBackend := map[string]int{}
	solverTime := 0.0
	discharged := 0
	var samples []interface{}
	var perObl []interface{}
	var knownHit []string
	var undecided []string
	for _, name := range order {
		g := groups[name]
		tot := 0.0
		backend := ""
		maxBytes := 0
		maxQ := 0.0
		for _, r := range g.results {
			tot += r.r.Seconds
			if r.r.Seconds > maxQ {
				maxQ = r.r.Seconds
			}
			if r.r.Solver != "" {
				backend = r.r.Solver
			}
			if r.r.Bytes > maxBytes {
				maxBytes = r.r.Bytes
			}
		}
		solverTime += tot
		entry := map[string]interface{}{"name": name, "paths": len(g.results), "backend": backend, "seconds": round3(tot), "slowest_query_s": round3(maxQ), "vc_bytes": maxBytes, "status": "discharged"}
		if g.ok {
			discharged++
			byBackend[backend]++
			if len(samples) < 4 {
				samples = append(samples, map[string]interface{}{"obligation": name, "vc": g.results[0].r.File, "backend": backend, "seconds": round3(tot), "paths": len(g.results)})
			}
			perObl = append(perObl, entry)
			continue
		}
		// failing obligation: known finding?
		handled := false
		for _, kf := range known.Findings {
			if kf.Property != *prop || kf.Obligation != name {
				continue
			}
			inside := true
			if kf.Excluding != "" {
				// the obligation must hold outside the excluded inputs
				fr := frByKey[g.fn]
				ex, err := eng.evalExcluding(fr, kf.Excluding)
				if err != nil {
					fmt.Fprintf(os.Stderr, "known finding %s: cannot evaluate excluding predicate: %v\n", name, err)
					inside = false
				} else {
					for _, r := range g.results {
						if r.r.Status == "unsat" {
							continue
						}
						o2 := *r.o
						o2.PC = append(append([]*Term(nil), r.o.PC...), Not(ex))
						r2 := eng.solve(&o2, *outDir+"/vc", 90000+len(perObl), timeoutS, false)
						if r2.Status != "unsat" {
							inside = false
						}
					}
				}
			}
			if inside {
				fmt.Printf("KNOWN-FINDING: property=%s %s: %s\n", *prop, name, kf.What)
				knownHit = append(knownHit, name+": "+kf.What)
				entry["status"] = "known-finding"
				handled = true
				break
			}
		}
		if handled {
			perObl = append(perObl, entry)
			continue
		}
		entry["status"] = "FAILED:" + g.status
		perObl = append(perObl, entry)
		undecided = append(undecided, name)
		// report
		var worst oblResult
		for _, r := range g.results {
			if r.r.Status != "unsat" || g.cover {
				worst = r
				if r.r.Status == "sat" {
					break
				}
			}
		}
		rep := map[string]interface{}{"obligation": name, "property": *prop, "position": worst.o.Pos, "solver_status": worst.r.Status,
			"solver_detail": worst.r.Detail, "model": worst.r.Model, "vc": worst.r.File}
		suffix := " no-failing-input-found"
		// adapters that search a catalogue of inputs do not need the solver's model: they also run after a timeout
		searchable := frByKey[g.fn] != nil && searchReplayable(frByKey[g.fn].Key) && strings.HasPrefix(g.kind, "post.")
		if (worst.r.Status == "sat" || searchable) && !g.cover {
			lastReplayTest = ""
			verdict, out, test := eng.replay(frByKey[g.fn], worst, *outDir)
			rep["replay_verdict"] = verdict
			rep["replay_output"] = out
			if lastReplayTest != "" && test != "" {
				test = lastReplayTest // with the self-describing header (package directory, injected shims)
			}
			rep["replay_test"] = test
			if verdict == "confirmed" {
				suffix = ""
			}
		}
		if g.cover {
			rep["note"] = "vacuity guard: the precondition of this function is unsatisfiable (or undecided), so its obligations would hold vacuously"
		}
		p := writeReplay(name, rep)
		fmt.Printf("FAILED %s [%s] %s\n", name, worst.r.Status, worst.o.Pos)
		report(p, suffix)
	}

	nObl := len(order) + len(lackObls) + len(writerObls) + 1
	if len(implFails) == 0 {
		discharged++
		byBackend["go/types implementer scan"]++
		perObl = append(perObl, map[string]interface{}{"name": "implementers-under-contract", "backend": "go/types implementer scan", "status": "discharged"})
	} else {
		perObl = append(perObl, map[string]interface{}{"name": "implementers-under-contract", "backend": "go/types implementer scan", "status": "FAILED", "detail": implFails})
	}
	for _, l := range writerObls {
		st := "discharged"
		for _, f := range writerFails {
			if strings.HasPrefix(f, l) {
				st = "FAILED"
			}
		}
		perObl = append(perObl, map[string]interface{}{"name": l, "backend": "go/ssa scan of sync.Map writers", "status": st})
		if st == "discharged" {
			discharged++
			byBackend["go/ssa writer scan"]++
		}
	}
	discharged += len(lackObls) - len(lackFails)
	for _, l := range lackObls {
		perObl = append(perObl, map[string]interface{}{"name": l, "backend": "go/types method sets", "status": "discharged"})
		byBackend["go/types"]++
	}
	var trusted []string
	for t := range eng.trusted {
		trusted = append(trusted, t)
	}
	sort.Strings(trusted)
	base := []string{
		"go/packages + go/ssa (x/tools v0.29.0) NaiveForm translation of /repo's working tree (build tag verif)",
		"govc symbolic executor and SMT encoder (this repository; mitigated by the must-fail self-test corpus)",
		"SMT solvers z3 4.8.12, z3 5.1.0, cvc5 1.0 (soundness of unsat)",
		"integers are mathematical; every signed + - * and narrowing conversion carries an overflow obligation",
		"sequential execution: goroutine interleavings are not modelled",
		"allocation failure and stack exhaustion are not modelled",
	}
	trusted = append(base, trusted...)
	for _, a := range assumedContracts {
		trusted = append(trusted, "assumed contract (interface or external): "+a)
	}
	var bounded, inlined, uncontracted []string
	for _, n := range notes {
		switch {
		case strings.HasPrefix(n, "bounded: "):
			bounded = append(bounded, strings.TrimPrefix(n, "bounded: "))
		case strings.HasPrefix(n, "inlined: "):
			inlined = append(inlined, strings.TrimPrefix(n, "inlined: "))
		case strings.HasPrefix(n, "uncontracted"):
			uncontracted = append(uncontracted, n)
		case strings.HasPrefix(n, "assumed contract: "):
		default:
			trusted = append(trusted, n)
		}
	}
	ev := &Evidence{PropertyID: *prop, Tier: *tier, Seed: *seed, Level: *level, WallS: round3(time.Since(t0).Seconds()), Violations: violations}
	ev.Coverage = map[string]interface{}{
		// the proof claim covers the obligations generated minus those listed as known findings: a known-finding
		// obligation is a clause that FAILS on this tree (reported on every run, never counted as proved)
		"obligations":              nObl - len(knownHit),
		"obligations_generated":    nObl,
		"known_finding_obligations": len(knownHit),
		"discharged":               discharged,
		"checker_cmd":              "/verif/bin/govc " + strings.Join(os.Args[1:], " "),
		"trusted_base":             trusted,
		"functions_under_contract": funcsUnder,
		"functions_added_by_callee_closure": closureFns(viaClosure),
		"functions_selected_through_anchor_files": nonNil(viaAnchor),
		"contracts_of_unexported_functions_no_longer_in_the_tree": nonNil(removedHelpers),
		"closure_obligations_left_to_their_own_property": nonNil(closureSkipped),
		"by_backend":               byBackend,
		"solver_time_s":            round3(solverTime),
		"queries":                  len(rs),
		"per_obligation":           perObl,
		"bounded":                  nonNil(bounded),
		"inlined_accessors":        nonNil(inlined),
		"uncontracted_calls":       nonNil(uncontracted),
		"undischarged":             nonNil(undecided),
		"known_findings":           nonNil(knownHit),
		"samples":                  samples,
		"explanation":              propExplanation[*prop],
		"evaluations":              len(rs),
		"distinct_nontrivial":      nObl - len(knownHit),
		"rule":                     "one SMT query per (obligation, path); an obligation counts once and is discharged only if every path's query is unsat (cover obligations: sat)",
	}
	ev.Assumptions = append([]string{}, propAssumptions[*prop]...)
	ev.Assumptions = append(ev.Assumptions, trusted...)
	writeEvidence(*evPath, ev)
	fmt.Printf("property %s: %d obligations, %d discharged, %d known findings, %d violations, %.1fs (%d functions under contract, %d queries)\n",
		*prop, nObl, discharged, len(knownHit), violations, time.Since(t0).Seconds(), len(funcsUnder), len(rs))
	if violations > 0 {
		os.Exit(1)
	}
}

func nonNil(s []string) []string {
	if s == nil {
		return []string{}
	}
	return s
}

func round3(f float64) float64 { return float64(int(f*1000+0.5)) / 1000 }

func sanitize(s string) string {
	return strings.NewReplacer("/", "_", "(", "", ")", "", "*", "", ":", "-", " ", "_", "@", "-", "|", "_", "$", "-lit").Replace(s)
}

func writeEvidence(path string, ev *Evidence) {
	if ev.Assumptions == nil {
		ev.Assumptions = []string{}
	}
	b, _ := json.MarshalIndent(ev, "", " ")
	if err := os.WriteFile(path, b, 0o644); err != nil {
		fmt.Fprintln(os.Stderr, "cannot write evidence:", err)
	}
}

// evalExcluding evaluates a known finding's excluding predicate over the function's inputs.
func (e *Engine) evalExcluding(fr *FuncResult, src string) (t *Term, err error) {
	if fr == nil || fr.entryEnv == nil {
		return nil, fmt.Errorf("no entry environment")
	}
	x, perr := parser.ParseExpr(src)
	if perr != nil {
		return nil, perr
	}
	defer func() {
		if r := recover(); r != nil {
			if ee, ok := r.(evalError); ok {
				err = fmt.Errorf("%s", ee.msg)
				return
			}
			panic(r)
		}
	}()
	env := fr.entryEnv.child()
	env.st = newState()
	env.useOld = true
	return env.evalBool(x), nil
}

// checkLacks discharges the method-set obligations of `type T lacks I...` directives.
// checkWriters: a sync.Map field that the contracts track as a ghost map may only be written by functions
// that are under contract (or executed in place by one): a named function of the package that stores into or
// deletes from it and has no contract is an unchecked entry point to the tracked state.
func (e *Engine) checkWriters(prop string) (names []string, fails []string) {
	for _, k := range sortedKeys(e.cs.SyncMaps) {
		sm := e.cs.SyncMaps[k]
		if !hasProp(sm.Props, prop) {
			continue
		}
		parts := strings.SplitN(sm.Field, ".", 2)
		if len(parts) != 2 {
			continue
		}
		name := calleeShort(sm.Pkg+"."+parts[0]) + ":writers." + parts[1]
		names = append(names, name)
		var bad []string
		for fk, fn := range e.funcs {
			if fn.Blocks == nil || fn.Pkg == nil || fn.Pkg.Pkg.Path() != sm.Pkg || fn.Parent() != nil || fn.Synthetic != "" {
				continue
			}
			if e.cs.Funcs[fk] != nil {
				continue
			}
			if writesSyncMapField(fn, parts[0], parts[1]) {
				bad = append(bad, calleeShort(fk))
			}
		}
		sort.Strings(bad)
		if len(bad) > 0 {
			fails = append(fails, name+" (no contract: "+strings.Join(bad, ", ")+")")
		}
	}
	return
}

// uncontractedImpls: for every interface method that has an (assumed) interface contract, the named types of the
// repository whose method set contains that method must carry a contract on their own method: the interface
// contract is an assumption about foreign code, it must not silently cover repository code.
func (e *Engine) uncontractedImpls(prop string) []string {
	var out []string
	seen := map[string]bool{}
	for _, k := range sortedKeys(e.cs.Funcs) {
		c := e.cs.Funcs[k]
		if !c.Iface {
			continue
		}
		it := e.lookupType(c.Pkg, c.RecvType)
		if it == nil {
			continue
		}
		iface, ok := it.Underlying().(*types.Interface)
		if !ok {
			continue
		}
		for _, p := range e.pkgs {
			if p.Types == nil {
				continue
			}
			sc := p.Types.Scope()
			for _, n := range sc.Names() {
				tn, ok := sc.Lookup(n).(*types.TypeName)
				if !ok || tn.IsAlias() {
					continue
				}
				named, ok := tn.Type().(*types.Named)
				if !ok || named.TypeParams().Len() > 0 {
					continue
				}
				if _, isIface := named.Underlying().(*types.Interface); isIface {
					continue
				}
				for _, t := range []types.Type{named, types.NewPointer(named)} {
					if !types.Implements(t, iface) {
						continue
					}
					sel := e.prog.MethodSets.MethodSet(t).Lookup(tn.Pkg(), c.Name)
					if sel == nil {
						sel = e.prog.MethodSets.MethodSet(t).Lookup(nil, c.Name)
					}
					if sel == nil {
						continue
					}
					fn := e.prog.MethodValue(sel)
					if fn == nil {
						continue
					}
					// promoted methods: the declaring method is what needs the contract
					for fn.Synthetic != "" && len(fn.Blocks) > 0 {
						var target *ssa.Function
						for _, b := range fn.Blocks {
							for _, in := range b.Instrs {
								if call, ok := in.(ssa.CallInstruction); ok {
									if cal := call.Common().StaticCallee(); cal != nil {
										target = cal
									}
								}
							}
						}
						if target == nil || target == fn {
							break
						}
						fn = target
					}
					if fn.Pkg == nil || !strings.HasPrefix(fn.Pkg.Pkg.Path(), modPath) {
						continue
					}
					fk := e.fnKey[fn]
					if fk == "" || e.cs.Funcs[fk] != nil {
						continue
					}
					line := calleeShort(fk) + " implements " + c.RecvType + "." + c.Name
					if !seen[line] {
						seen[line] = true
						out = append(out, line)
					}
				}
			}
		}
	}
	sort.Strings(out)
	return out
}

func writesSyncMapField(fn *ssa.Function, typeName, field string) bool {
	var scan func(f *ssa.Function) bool
	scan = func(f *ssa.Function) bool {
		for _, b := range f.Blocks {
			for _, in := range b.Instrs {
				call, ok := in.(ssa.CallInstruction)
				if !ok {
					continue
				}
				cc := call.Common()
				callee := cc.StaticCallee()
				if callee == nil || cc.IsInvoke() || len(cc.Args) == 0 {
					continue
				}
				switch callee.String() {
				case "(*sync.Map).Store", "(*sync.Map).Delete", "(*sync.Map).LoadOrStore", "(*sync.Map).LoadAndDelete", "(*sync.Map).Swap", "(*sync.Map).CompareAndSwap", "(*sync.Map).CompareAndDelete", "(*sync.Map).Clear":
				default:
					continue
				}
				fa, ok := cc.Args[0].(*ssa.FieldAddr)
				if !ok {
					continue
				}
				owner := namedOf(derefType(fa.X.Type()))
				if owner == nil || owner.Obj().Name() != typeName {
					continue
				}
				if st := structOf(owner); st != nil && st.Field(fa.Field).Name() == field {
					return true
				}
			}
		}
		for _, a := range f.AnonFuncs {
			if scan(a) {
				return true
			}
		}
		return false
	}
	return scan(fn)
}

func (e *Engine) checkLacks(prop string) (names []string, fails []string) {
	for _, lk := range e.cs.Lacks {
		if !hasProp(lk.Props, prop) {
			continue
		}
		for _, in := range lk.Ifaces {
			name := calleeShort(lk.Pkg+"."+lk.Type) + ":lacks." + in
			names = append(names, name)
			env := &Env{eng: e, pkg: e.typesPkg(lk.Pkg), vars: map[string]tv{}}
			t := e.lookupType(lk.Pkg, lk.Type)
			var it = e.resolveIface(env, in)
			if t == nil || it == nil {
				fails = append(fails, name)
				continue
			}
			if implementsEither(t, it) {
				fails = append(fails, name)
			}
		}
	}
	return
}

var propExplanation = map[string]string{}
var propAssumptions = map[string][]string{}

// closureFns lists the functions that are part of a check only because a selected function relies on their contract.
func closureFns(m map[string]bool) []string {
	out := []string{}
	for k := range m {
		out = append(out, calleeShort(k))
	}
	sort.Strings(out)
	return out
}

// cfnName: the bare function or method name a contract key ends in.
func cfnName(e *Engine, key string) string {
	if c := e.cs.Funcs[key]; c != nil {
		return c.Name
	}
	return key
}

// unexportedName: an unexported function or method name (function literals are named after their parent: f$1).
func unexportedName(name string) bool {
	if name == "" {
		return false
	}
	base := name
	if i := strings.Index(base, "$"); i >= 0 {
		base = base[:i]
	}
	r := base[0]
	return r >= 'a' && r <= 'z' || r == '_'
}
