package main

// Engine: loads /repo (tag verif), builds naive-form SSA, reads contracts.

import (
	"fmt"
	"go/ast"
	"go/parser"
	"go/token"
	"go/types"
	"os"
	"path/filepath"
	"sort"
	"strings"

	"golang.org/x/tools/go/packages"
	"golang.org/x/tools/go/ssa"
	"golang.org/x/tools/go/ssa/ssautil"
)

type Engine struct {
	repo     string
	pkgs     []*packages.Package
	allPkgs  map[string]*packages.Package
	prog     *ssa.Program
	cs       *ContractSet
	funcs    map[string]*ssa.Function // by contract key
	fnKey    map[*ssa.Function]string
	initExpr map[*types.Var]initInfo
	globals  map[*types.Var]Value
	gfacts   map[string][]*Term // facts about global constants, by const name
	errRoots map[string]IfaceV  // opaque error sentinels by qualified name
	trusted  map[string]bool
	lemmasUsed map[string]bool
}

type initInfo struct {
	rhs  ast.Expr
	info *types.Info
	pkg  *types.Package
}

var repoPatterns = []string{".", "./keyvalue", "./keyvalue/blob", "./mem", "./mount", "./os", "./cache", "./tar", "./internal/pathlock", "./internal/fserrors"}

func loadEngine(repo string) (*Engine, error) {
	cfg := &packages.Config{
		Mode:       packages.LoadAllSyntax,
		Dir:        repo,
		BuildFlags: []string{"-tags=verif"},
		Env:        append(os.Environ(), "GOFLAGS=-mod=mod", "GOPROXY=off", "GOSUMDB=off", "GOTOOLCHAIN=local", "CGO_ENABLED=0"),
	}
	pkgs, err := packages.Load(cfg, repoPatterns...)
	if err != nil {
		return nil, err
	}
	var errs []string
	for _, p := range pkgs {
		for _, e := range p.Errors {
			errs = append(errs, e.Error())
		}
	}
	if len(errs) > 0 {
		return nil, fmt.Errorf("package load errors:\n  %s", strings.Join(errs, "\n  "))
	}
	prog, spkgs := ssautil.AllPackages(pkgs, ssa.NaiveForm)
	for _, sp := range spkgs {
		if sp != nil {
			sp.Build()
		}
	}
	e := &Engine{repo: repo, pkgs: pkgs, prog: prog, cs: newContractSet(), funcs: map[string]*ssa.Function{}, fnKey: map[*ssa.Function]string{},
		allPkgs: map[string]*packages.Package{}, initExpr: map[*types.Var]initInfo{}, globals: map[*types.Var]Value{}, gfacts: map[string][]*Term{}, errRoots: map[string]IfaceV{}, trusted: map[string]bool{}, lemmasUsed: map[string]bool{}}
	packages.Visit(pkgs, nil, func(p *packages.Package) { e.allPkgs[p.PkgPath] = p })
	for _, p := range e.allPkgs {
		if p.TypesInfo == nil {
			continue
		}
		for _, in := range p.TypesInfo.InitOrder {
			if len(in.Lhs) == 1 {
				e.initExpr[in.Lhs[0]] = initInfo{in.Rhs, p.TypesInfo, p.Types}
			}
		}
	}
	errPtrTags = []*Term{tagTerm(e.pathErrorPtr()), tagTerm(e.linkErrorPtr())}
	// deterministic dynamic-type tags: every named type of the repository (and its pointer type) is numbered
	// up front in sorted order, so that the generated queries do not depend on the order of exploration
	{
		var names []string
		byName := map[string]types.Type{}
		for _, p := range pkgs {
			if p.Types == nil {
				continue
			}
			sc := p.Types.Scope()
			for _, n := range sc.Names() {
				tn, ok := sc.Lookup(n).(*types.TypeName)
				if !ok || tn.IsAlias() {
					continue
				}
				if _, isIface := tn.Type().Underlying().(*types.Interface); isIface {
					continue
				}
				if named, ok := tn.Type().(*types.Named); ok && named.TypeParams().Len() > 0 {
					continue
				}
				k := p.PkgPath + "." + n
				names = append(names, k, "*"+k)
				byName[k] = tn.Type()
				byName["*"+k] = types.NewPointer(tn.Type())
			}
		}
		sort.Strings(names)
		for _, k := range names {
			tags.id(byName[k])
		}
		for _, k := range []string{"errorString", "fmtError", "context.background", "context.cancelCtx"} {
			pseudoTag(k)
		}
		tags.frozen = true
	}
	if t := e.lookupType("os", "LinkError"); t != nil {
		errPtrTags = append(errPtrTags, tagTerm(types.NewPointer(t)))
	}
	if t := e.lookupType("os", "SyscallError"); t != nil {
		errPtrTags = append(errPtrTags, tagTerm(types.NewPointer(t)))
	}
	e.trusted["error values of dynamic type *PathError / *LinkError are non-nil pointers (no typed-nil errors)"] = true
	// index functions
	for fn := range ssautil.AllFunctions(prog) {
		if fn.Pkg == nil || fn.Synthetic != "" && fn.Parent() == nil && !strings.HasPrefix(fn.Synthetic, "wrapper") && fn.Blocks == nil {
			continue
		}
		if k := funcKey(fn); k != "" {
			if old, ok := e.funcs[k]; !ok || (old.Blocks == nil && fn.Blocks != nil) {
				e.funcs[k] = fn
			}
			e.fnKey[fn] = k
		}
	}
	// AllFunctions is a linker-style reachability: a method of an unexported type that nothing calls any more (a refactor
	// dropped its last call) is not in it, although it is still in the source. Index every declared method as well.
	for _, p := range pkgs {
		sp := prog.Package(p.Types)
		if sp == nil {
			continue
		}
		for _, mem := range sp.Members {
			tm, ok := mem.(*ssa.Type)
			if !ok {
				continue
			}
			named, ok := types.Unalias(tm.Type()).(*types.Named)
			if !ok {
				continue
			}
			for i := 0; i < named.NumMethods(); i++ {
				fn := prog.FuncValue(named.Method(i))
				if fn == nil || fn.Blocks == nil {
					continue
				}
				if k := funcKey(fn); k != "" {
					if old, ok := e.funcs[k]; !ok || old.Blocks == nil {
						e.funcs[k] = fn
						e.fnKey[fn] = k
					}
				}
			}
		}
	}
	// contracts
	for _, p := range pkgs {
		if len(p.GoFiles) == 0 {
			continue
		}
		dir := filepath.Dir(p.GoFiles[0])
		matches, _ := filepath.Glob(filepath.Join(dir, "contracts*_verif.go"))
		sort.Strings(matches)
		for _, f := range matches {
			if err := e.cs.parseFile(f, p.PkgPath); err != nil {
				return nil, fmt.Errorf("contract error: %v", err)
			}
		}
	}
	e.rekeyRenamedSyncMaps()
	return e, nil
}

// rekeyRenamedSyncMaps: a `syncmap T.f` directive whose field was only renamed follows the field (see fieldAlias).
func (e *Engine) rekeyRenamedSyncMaps() {
	for _, k := range sortedKeys(e.cs.SyncMaps) {
		i := strings.LastIndex(k, ".")
		j := strings.LastIndex(k[:i], ".")
		if i < 0 || j < 0 {
			continue
		}
		t := e.lookupType(k[:j], k[j+1:i])
		if t == nil {
			continue
		}
		st, ok := t.Underlying().(*types.Struct)
		if !ok {
			continue
		}
		has := false
		for f := 0; f < st.NumFields(); f++ {
			if st.Field(f).Name() == k[i+1:] {
				has = true
			}
		}
		if has {
			continue
		}
		if alias := fieldAlias(t, k[i+1:]); alias != "" {
			e.cs.SyncMaps[k[:i+1]+alias] = e.cs.SyncMaps[k]
			delete(e.cs.SyncMaps, k)
			renamedFields[k[i+1:]+" is now "+alias+" in "+k[:i]] = true
		}
	}
}

func recvString(t types.Type) string {
	t = types.Unalias(t)
	if p, ok := t.(*types.Pointer); ok {
		if n := namedOf(p.Elem()); n != nil {
			return "*" + n.Obj().Name()
		}
	}
	if n := namedOf(t); n != nil {
		return n.Obj().Name()
	}
	return ""
}

func funcKey(fn *ssa.Function) string {
	if fn.Parent() != nil {
		pk := funcKey(fn.Parent())
		if pk == "" {
			return ""
		}
		// anonymous function ordinal
		for i, a := range fn.Parent().AnonFuncs {
			if a == fn {
				return pk + "$" + itoa(i+1)
			}
		}
		return ""
	}
	if fn.Pkg == nil {
		if fn.Signature.Recv() != nil {
			// method of an instantiated / external type
			if n := namedOf(derefType(fn.Signature.Recv().Type())); n != nil && n.Obj().Pkg() != nil {
				return n.Obj().Pkg().Path() + ".(" + recvString(fn.Signature.Recv().Type()) + ")." + fn.Name()
			}
		}
		return ""
	}
	pp := fn.Pkg.Pkg.Path()
	if r := fn.Signature.Recv(); r != nil {
		rs := recvString(r.Type())
		if rs == "" {
			return ""
		}
		return pp + ".(" + rs + ")." + fn.Name()
	}
	return pp + "." + fn.Name()
}

func derefType(t types.Type) types.Type {
	if p, ok := types.Unalias(t).Underlying().(*types.Pointer); ok {
		return p.Elem()
	}
	return t
}

func (e *Engine) pkgByName(name string) *types.Package {
	var best *types.Package
	for _, p := range e.allPkgs {
		if p.Types != nil && p.Types.Name() == name {
			// prefer repository packages, then shorter paths
			if best == nil || (strings.HasPrefix(p.PkgPath, modPath) && !strings.HasPrefix(best.Path(), modPath)) || (strings.HasPrefix(p.PkgPath, modPath) == strings.HasPrefix(best.Path(), modPath) && len(p.PkgPath) < len(best.Path())) {
				best = p.Types
			}
		}
	}
	return best
}

func (e *Engine) typesPkg(path string) *types.Package {
	if p, ok := e.allPkgs[path]; ok {
		return p.Types
	}
	return nil
}

func (e *Engine) lookupMacro(name string, pkg *types.Package) *Macro {
	if pkg != nil {
		if m, ok := e.cs.Macros[pkg.Path()+"."+name]; ok {
			return m
		}
	}
	if i := strings.Index(name, "."); i > 0 {
		if p := e.pkgByName(name[:i]); p != nil {
			if m, ok := e.cs.Macros[p.Path()+"."+name[i+1:]]; ok {
				return m
			}
		}
	}
	if m, ok := e.cs.Macros[name]; ok {
		return m
	}
	return nil
}

func (e *Engine) lookupType(pkgPath, name string) types.Type {
	p := e.typesPkg(pkgPath)
	if p == nil {
		return nil
	}
	o := p.Scope().Lookup(name)
	if o == nil {
		return nil
	}
	return o.Type()
}

func (e *Engine) pathErrorPtr() types.Type {
	return types.NewPointer(e.lookupType("io/fs", "PathError"))
}
func (e *Engine) linkErrorPtr() types.Type {
	return types.NewPointer(e.lookupType(modPath, "LinkError"))
}
func (e *Engine) errorType() types.Type { return types.Universe.Lookup("error").Type() }

// implTerm: does the dynamic type with this tag implement iface?
func (e *Engine) implTerm(tag *Term, iface types.Type) *Term {
	if tag.IsInt() {
		id := int(tag.Int.Int64())
		if t := tags.typeOf(id); t != nil {
			if pt, pseudo := t.(*pseudoType); !pseudo {
				return BoolLit(types.Implements(t, iface.Underlying().(*types.Interface)))
			} else {
				return BoolLit(pseudoImplements(pt, iface))
			}
		}
		return False
	}
	ifaceReg[typeStr(iface)] = iface
	return App("impl|"+typeStr(iface), BoolS, tag)
}

var ifaceReg = map[string]types.Type{}

// pseudoType stands for an opaque dynamic type (e.g. *errors.errorString).
type pseudoType struct{ name string }

func (p *pseudoType) Underlying() types.Type { return p }
func (p *pseudoType) String() string         { return p.name }

var pseudoTypes = map[string]*pseudoType{}

// pseudoImplements: opaque error types implement error; opaque context types implement context.Context.
func pseudoImplements(p *pseudoType, iface types.Type) bool {
	name := typeStr(iface)
	switch {
	case strings.HasPrefix(p.name, "opaque:context."):
		return name == "context.Context"
	default:
		return name == "error"
	}
}

func pseudo(name string) types.Type {
	if p, ok := pseudoTypes[name]; ok {
		return p
	}
	p := &pseudoType{name}
	pseudoTypes[name] = p
	return p
}

func pseudoTag(name string) *Term {
	k := "opaque:" + name
	if id, ok := tags.ids[k]; ok {
		return IntLit(int64(id))
	}
	return IntLit(int64(tags.register(k, pseudo(k))))
}

// globalValue gives the (assumed immutable) value of a package-level variable.
func (e *Engine) globalValue(v *types.Var) Value {
	if val, ok := e.globals[v]; ok {
		return val
	}
	qn := v.Pkg().Path() + "." + v.Name()
	var val Value
	if in, ok := e.initExpr[v]; ok {
		if tvv, ok := in.info.Types[in.rhs]; ok && tvv.Value != nil {
			val = constTerm(tvv.Value, v.Type()).V
			if types.IsInterface(v.Type()) {
				val = IfaceV{tagTerm(tvv.Type), val.(*Term)}
			}
		} else {
			var ref *types.Var
			switch r := in.rhs.(type) {
			case *ast.Ident:
				ref, _ = in.info.Uses[r].(*types.Var)
			case *ast.SelectorExpr:
				ref, _ = in.info.Uses[r.Sel].(*types.Var)
			}
			if ref != nil && ref.Pkg() != nil && ref.Parent() == ref.Pkg().Scope() {
				val = e.globalValue(ref)
				if types.IsInterface(v.Type()) && !types.IsInterface(ref.Type()) {
					val = IfaceV{tagTerm(ref.Type()), val.(*Term)}
				}
			}
		}
	}
	if val == nil {
		// opaque root
		if types.IsInterface(v.Type()) {
			c := Const("gval|"+qn, IntS)
			iv := IfaceV{pseudoTag("errorString"), c}
			e.errRoots[qn] = iv
			val = iv
		} else {
			cs := comps(v.Type())
			ts := make([]*Term, len(cs))
			for i, c := range cs {
				ts[i] = Const("gval|"+qn+c.suffix, c.sort)
			}
			val, _ = fromComps(v.Type(), ts)
		}
	}
	e.globals[v] = val
	e.trusted["package-level variable "+shortType(qn)+" treated as immutable"] = true
	return val
}

func (e *Engine) globalByName(pkgPath, name string) Value {
	p := e.typesPkg(pkgPath)
	if p == nil {
		panic("package not loaded: " + pkgPath)
	}
	v, ok := p.Scope().Lookup(name).(*types.Var)
	if !ok {
		panic("no variable " + pkgPath + "." + name)
	}
	return e.globalValue(v)
}

// errIs unfolds errors.Is(a, b) through the error types the library uses.
func (e *Engine) errIs(h map[string]*Term, a, b IfaceV, depth int, note func(*Term)) *Term {
	same := And(Eq(a.Tag, b.Tag), Eq(a.Val, b.Val))
	nonNil := Neq(a.Tag, IntLit(0))
	pe := e.pathErrorPtr()
	le := e.linkErrorPtr()
	errnoT := e.lookupType("syscall", "Errno")
	leaf := pseudoTag("errorString")
	leaf2 := pseudoTag("fmtError")
	if depth == 0 {
		// leaf rule: below the unfolding depth a wrapper no longer matches through its Err field
		e.trusted["errors.Is is unfolded through at most 3 symbolic *PathError/*LinkError wrappers; deeper chains are treated as not matching"] = true
		var cs []*Term
		cs = append(cs, same)
		if errnoT != nil && !knownNotTag(a.Tag, tagTerm(errnoT)) {
			cs = append(cs, And(Eq(a.Tag, tagTerm(errnoT)), e.errnoIs(a.Val, b)))
		}
		cs = append(cs, And(Neq(a.Tag, tagTerm(pe)), Neq(a.Tag, tagTerm(le)), Neq(a.Tag, leaf), Neq(a.Tag, leaf2), Neq(a.Tag, tagTerm(errnoT)), App("errIsOpaque", BoolS, a.Tag, a.Val, b.Tag, b.Val)))
		return And(nonNil, Or(cs...))
	}
	peN := namedOf(pe.(*types.Pointer).Elem())
	leN := namedOf(le.(*types.Pointer).Elem())
	idx := func(n *types.Named, name string) int {
		s := structOf(n)
		for i := 0; i < s.NumFields(); i++ {
			if s.Field(i).Name() == name {
				return i
			}
		}
		panic("field")
	}
	// Stepping through a wrapper this function constructed itself (literal tag) costs no depth, so that
	// errIs(wrap(inner)) and errIs(inner) unfold inner identically.
	step := depth - 1
	if a.Tag.IsInt() {
		step = depth
	}
	var cases []*Term
	cases = append(cases, same)
	if !knownNotTag(a.Tag, tagTerm(pe)) {
		inner := readField(h, peN, idx(peN, "Err"), a.Val).(IfaceV)
		if note != nil {
			for _, f := range typeFacts(e.errorType(), inner, Const("heaptop", IntS)) {
				note(Implies(Eq(a.Tag, tagTerm(pe)), f))
			}
		}
		cases = append(cases, And(Eq(a.Tag, tagTerm(pe)), e.errIs(h, inner, b, step, note)))
	}
	if !knownNotTag(a.Tag, tagTerm(le)) {
		inner := readField(h, leN, idx(leN, "Err"), a.Val).(IfaceV)
		if note != nil {
			for _, f := range typeFacts(e.errorType(), inner, Const("heaptop", IntS)) {
				note(Implies(Eq(a.Tag, tagTerm(le)), f))
			}
		}
		cases = append(cases, And(Eq(a.Tag, tagTerm(le)), e.errIs(h, inner, b, step, note)))
	}
	if errnoT != nil && !knownNotTag(a.Tag, tagTerm(errnoT)) {
		cases = append(cases, And(Eq(a.Tag, tagTerm(errnoT)), e.errnoIs(a.Val, b)))
	}
	// any other dynamic type: uninterpreted
	known := []*Term{tagTerm(pe), tagTerm(le), leaf, leaf2}
	if errnoT != nil {
		known = append(known, tagTerm(errnoT))
	}
	var notKnown []*Term
	for _, k := range known {
		notKnown = append(notKnown, Neq(a.Tag, k))
	}
	other := And(append(notKnown, App("errIsOpaque", BoolS, a.Tag, a.Val, b.Tag, b.Val))...)
	cases = append(cases, other)
	return And(nonNil, Or(cases...))
}

func knownNotTag(tag, want *Term) bool {
	return tag.IsInt() && want.IsInt() && tag.Int.Cmp(want.Int) != 0
}

// errnoIs mirrors syscall.Errno.Is on linux (audited against the real method).
func (e *Engine) errnoIs(errno *Term, target IfaceV) *Term {
	root := func(pkg, name string) IfaceV {
		v := e.globalByName(pkg, name)
		return v.(IfaceV)
	}
	is := func(t IfaceV, codes ...int64) *Term {
		var ds []*Term
		for _, c := range codes {
			ds = append(ds, Eq(errno, IntLit(c)))
		}
		return And(Eq(target.Tag, t.Tag), Eq(target.Val, t.Val), Or(ds...))
	}
	out := []*Term{
		is(root("io/fs", "ErrPermission"), 13, 1),
		is(root("io/fs", "ErrExist"), 17, 39),
		is(root("io/fs", "ErrNotExist"), 2),
	}
	if p := e.typesPkg("errors"); p != nil && p.Scope().Lookup("ErrUnsupported") != nil {
		out = append(out, is(root("errors", "ErrUnsupported"), 38, 95))
	}
	return Or(out...)
}

// specBuiltin: spec functions implemented in the engine (paths etc.); see speclib.go.
func (e *Engine) specBuiltin(env *Env, name string, n *ast.CallExpr) (tv, bool) {
	return specLib(e, env, name, n)
}

// syncMapV is the ghost (dom, val) view of a sync.Map located at addr.
func (e *Engine) syncMapV(spec *SyncMapSpec, addr *Term) mapV {
	env := &Env{eng: e, pkg: e.typesPkg(spec.Pkg), vars: map[string]tv{}}
	kx, err := parser.ParseExpr(spec.Key)
	if err != nil {
		panic(err)
	}
	kt := env.resolveType(kx)
	if kt == nil {
		panic("syncmap: unknown key type " + spec.Key)
	}
	return mapV{Name: "SM|" + shortType(spec.Pkg+"."+spec.Field), Addr: addr, KeyT: kt, ValT: types.NewInterfaceType(nil, nil)}
}

func (e *Engine) syncMapValType(spec *SyncMapSpec) types.Type {
	env := &Env{eng: e, pkg: e.typesPkg(spec.Pkg), vars: map[string]tv{}}
	vx, err := parser.ParseExpr(spec.Val)
	if err != nil {
		panic(err)
	}
	return env.resolveType(vx)
}

// contractSig finds a contract by (possibly shortened) key together with its signature.
func (e *Engine) contractSig(name string) (*Contract, *types.Signature) {
	var c *Contract
	for k, cc := range e.cs.Funcs {
		if k == name || calleeShort(k) == name || strings.TrimPrefix(k, modPath+".") == strings.TrimPrefix(name, "hackpadfs.") && strings.HasPrefix(k, modPath+".") {
			c = cc
			break
		}
	}
	if c == nil {
		return nil, nil
	}
	if c.Iface {
		it := e.lookupType(c.Pkg, c.RecvType)
		if it == nil {
			return c, nil
		}
		iface, ok := it.Underlying().(*types.Interface)
		if !ok {
			return c, nil
		}
		for i := 0; i < iface.NumMethods(); i++ {
			m := iface.Method(i)
			if m.Name() == c.Name {
				msig := m.Type().(*types.Signature)
				return c, types.NewSignatureType(types.NewVar(token.NoPos, nil, "self", it), nil, nil, msig.Params(), msig.Results(), msig.Variadic())
			}
		}
		return c, nil
	}
	if fn := e.funcs[c.Key]; fn != nil {
		return c, fn.Signature
	}
	return c, nil
}
