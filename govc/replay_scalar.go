package main

// Generic replay adapter for functions over scalars: no receiver, every parameter and result a string, an
// integer or a bool (tar.resolvePath, os.joinSepPath, ...). The requires / ensures clauses of the contract are
// translated mechanically to Go (the expression syntax is Go's; the string pseudo-functions become calls of the
// real standard-library functions, as in `govc audit`) and evaluated on the real function: first on the solver's
// model, then on every tuple of short strings over a small alphabet (small-scope search around the model).
// A contract clause the translation cannot express makes the generated test fail to compile: not-replayable.

import (
	"bytes"
	"fmt"
	"go/ast"
	"go/printer"
	"go/token"
	"go/types"
	"strings"
)

func scalarBasic(t types.Type) (kind string, ok bool) {
	b, isB := types.Unalias(t).Underlying().(*types.Basic)
	if !isB {
		return "", false
	}
	switch {
	case b.Info()&types.IsString != 0:
		return "string", true
	case b.Info()&types.IsInteger != 0:
		return "int", true
	case b.Info()&types.IsBoolean != 0:
		return "bool", true
	}
	return "", false
}

// scalarReplayable: the function's signature is within the adapter's reach.
func (e *Engine) scalarReplayable(key string) bool {
	fn := e.funcs[key]
	c := e.cs.Funcs[key]
	if fn == nil || c == nil || fn.Signature.Recv() != nil || fn.Parent() != nil || fn.Signature.Params().Len() == 0 {
		return false
	}
	for i := 0; i < fn.Signature.Params().Len(); i++ {
		if _, ok := scalarBasic(fn.Signature.Params().At(i).Type()); !ok {
			return false
		}
	}
	for i := 0; i < fn.Signature.Results().Len(); i++ {
		if _, ok := scalarBasic(fn.Signature.Results().At(i).Type()); !ok {
			return false
		}
	}
	return fn.Signature.Results().Len() > 0
}

var govcHelperNames = map[string]bool{"VP": true, "ValidPath": true, "pdir": true, "pbase": true, "pjoin": true, "pclean": true, "hasPrefix": true, "hasSuffix": true,
	"contains": true, "trimPrefix": true, "trimSuffix": true, "replaceAll": true, "implies": true, "iff": true, "ite": true, "substr": true, "old": true}

// goExpr prints a contract expression as Go, prefixing the pseudo-functions.
func goExpr(x ast.Expr) string {
	var rw func(e ast.Expr) ast.Expr
	rw = func(e ast.Expr) ast.Expr {
		switch n := e.(type) {
		case *ast.CallExpr:
			args := make([]ast.Expr, len(n.Args))
			for i, a := range n.Args {
				args[i] = rw(a)
			}
			if id, ok := n.Fun.(*ast.Ident); ok && govcHelperNames[id.Name] {
				return &ast.CallExpr{Fun: ast.NewIdent("govc_" + id.Name), Args: args}
			}
			return &ast.CallExpr{Fun: n.Fun, Args: args}
		case *ast.BinaryExpr:
			return &ast.BinaryExpr{X: rw(n.X), Op: n.Op, Y: rw(n.Y)}
		case *ast.UnaryExpr:
			return &ast.UnaryExpr{X: rw(n.X), Op: n.Op}
		case *ast.ParenExpr:
			return &ast.ParenExpr{X: rw(n.X)}
		}
		return e
	}
	var b bytes.Buffer
	_ = printer.Fprint(&b, token.NewFileSet(), rw(x))
	return b.String()
}

const scalarHelpers = `
func govc_VP(s string) bool                  { return gfs.ValidPath(s) }
func govc_ValidPath(s string) bool           { return gfs.ValidPath(s) }
func govc_pdir(s string) string              { return gpath.Dir(s) }
func govc_pbase(s string) string             { return gpath.Base(s) }
func govc_pjoin(a, c string) string          { return gpath.Join(a, c) }
func govc_pclean(a string) string            { return gpath.Clean(a) }
func govc_hasPrefix(s, p string) bool        { return gstrings.HasPrefix(s, p) }
func govc_hasSuffix(s, p string) bool        { return gstrings.HasSuffix(s, p) }
func govc_contains(s, p string) bool         { return gstrings.Contains(s, p) }
func govc_trimPrefix(s, p string) string     { return gstrings.TrimPrefix(s, p) }
func govc_trimSuffix(s, p string) string     { return gstrings.TrimSuffix(s, p) }
func govc_replaceAll(s, a, c string) string  { return gstrings.ReplaceAll(s, a, c) }
func govc_implies(a, c bool) bool            { return !a || c }
func govc_iff(a, c bool) bool                { return a == c }
func govc_ite[T any](c bool, a, d T) T       { if c { return a }; return d }
func govc_old[T any](a T) T                  { return a }
func govc_substr(s string, i, j int) string {
	if i < 0 || i > len(s) || j < i {
		return ""
	}
	if j > len(s) {
		j = len(s)
	}
	return s[i:j]
}
func govc_corpus(n int) []string {
	alphabet := []string{"a", "b", ".", "/", "\\"}
	out := []string{""}
	prev := []string{""}
	for i := 0; i < n; i++ {
		var next []string
		for _, p := range prev {
			for _, c := range alphabet {
				next = append(next, p+c)
			}
		}
		out = append(out, next...)
		prev = next
	}
	return out
}
`

func replayScalar(e *Engine, fr *FuncResult, r oblResult, outDir string) (string, string, string) {
	fn := e.funcs[fr.Key]
	c := e.cs.Funcs[fr.Key]
	sig := fn.Signature
	env := fr.entryEnv.child()
	env.st = newState()
	env.useOld = true
	var probes []probe
	for _, name := range c.Params {
		if name == "_" {
			return "not-replayable", "unnamed parameter", ""
		}
		v, ok := fr.entryEnv.vars[name]
		if !ok {
			return "not-replayable", "parameter not bound: " + name, ""
		}
		t, ok := v.V.(*Term)
		if !ok {
			return "not-replayable", "parameter is not scalar: " + name, ""
		}
		probes = append(probes, probe{name, t})
	}
	tag := sanitize(r.o.Name())
	m, ok := e.modelValues(r.o, probes, nil, outDir, tag)
	var modelArgs []string
	nStr := 0
	for i, name := range c.Params {
		kind, _ := scalarBasic(sig.Params().At(i).Type())
		tn := types.TypeString(sig.Params().At(i).Type(), func(p *types.Package) string { return "" })
		switch kind {
		case "string":
			nStr++
			s := ""
			if ok {
				s, _ = sxStr(m, name)
			}
			modelArgs = append(modelArgs, fmt.Sprintf("%q", s))
		case "int":
			modelArgs = append(modelArgs, fmt.Sprintf("%s(%d)", tn, sxInt(m, name, 0)))
		case "bool":
			b := "false"
			if ok {
				if v, has := m[name]; has && !v.isList && v.atom == "true" {
					b = "true"
				}
			}
			modelArgs = append(modelArgs, b)
		}
	}
	// parameter list, result list
	var params, callArgs, results, fmtArgs []string
	for i, name := range c.Params {
		tn := types.TypeString(sig.Params().At(i).Type(), func(p *types.Package) string { return "" })
		params = append(params, name+" "+tn)
		callArgs = append(callArgs, name)
		fmtArgs = append(fmtArgs, name)
	}
	for _, name := range c.Results {
		results = append(results, name)
		fmtArgs = append(fmtArgs, name)
	}
	var body strings.Builder
	fmt.Fprintf(&body, "\tcheck := func(%s) string {\n", strings.Join(params, ", "))
	for _, rq := range c.Requires {
		fmt.Fprintf(&body, "\t\tif !(%s) {\n\t\t\treturn \"\"\n\t\t}\n", goExpr(rq.Expr))
	}
	fmt.Fprintf(&body, "\t\t%s := %s(%s)\n", strings.Join(results, ", "), fn.Name(), strings.Join(callArgs, ", "))
	for _, en := range c.Ensures {
		fmt.Fprintf(&body, "\t\tif !(%s) {\n\t\t\treturn fmt.Sprintf(\"confirmed: %s(%s) = (%s) violates ensures %s\", %s)\n\t\t}\n",
			goExpr(en.Expr), fn.Name(), strings.TrimSuffix(strings.Repeat("%#v, ", len(c.Params)), ", "), strings.TrimSuffix(strings.Repeat("%#v, ", len(c.Results)), ", "), en.Label, strings.Join(fmtArgs, ", "))
	}
	body.WriteString("\t\treturn \"\"\n\t}\n")
	fmt.Fprintf(&body, "\tif v := check(%s); v != \"\" {\n\t\treturn v\n\t}\n", strings.Join(modelArgs, ", "))
	// small-scope search: strings over the corpus, other parameters as in the model (plus '/' and '\\' for integers)
	depth := 4
	switch {
	case nStr >= 3:
		depth = 2
	case nStr == 2:
		depth = 3
	}
	fmt.Fprintf(&body, "\tcs := govc_corpus(%d)\n\t_ = cs\n", depth)
	indent := "\t"
	var loopArgs []string
	for i, name := range c.Params {
		kind, _ := scalarBasic(sig.Params().At(i).Type())
		tn := types.TypeString(sig.Params().At(i).Type(), func(p *types.Package) string { return "" })
		switch kind {
		case "string":
			fmt.Fprintf(&body, "%sfor _, %s := range cs {\n", indent, name)
		case "int":
			fmt.Fprintf(&body, "%sfor _, %s := range []%s{%s, %s('/'), %s('\\\\'), 0, 1} {\n", indent, name, tn, modelArgs[i], tn, tn)
		default:
			fmt.Fprintf(&body, "%sfor _, %s := range []bool{false, true} {\n", indent, name)
		}
		indent += "\t"
		loopArgs = append(loopArgs, name)
	}
	fmt.Fprintf(&body, "%sif v := check(%s); v != \"\" {\n%s\treturn v + \" [input found by small-scope search around the solver's model]\"\n%s}\n", indent, strings.Join(loopArgs, ", "), indent, indent)
	for range c.Params {
		indent = indent[:len(indent)-1]
		fmt.Fprintf(&body, "%s}\n", indent)
	}
	body.WriteString("\treturn \"not-reproduced\"\n")

	pkgDir := strings.TrimPrefix(strings.TrimPrefix(c.Pkg, modPath), "/")
	if pkgDir == "" {
		pkgDir = "."
	}
	src := fmt.Sprintf(`package %s

// generated by govc: replay of %s

import (
	"fmt"
	gfs "io/fs"
	gpath "path"
	gstrings "strings"
	"testing"
)

var _ = gfs.ValidPath
var _ = gpath.Clean
var _ = gstrings.HasPrefix
%s
func TestGovcReplay(t *testing.T) {
	fmt.Println("GOVC-REPLAY " + govcRun())
}

func govcRun() (verdict string) {
	defer func() {
		if r := recover(); r != nil {
			verdict = fmt.Sprint("confirmed: panic: ", r)
		}
	}()
%s}
`, fn.Pkg.Pkg.Name(), r.o.Name(), scalarHelpers, body.String())
	dir := filepath_join(outDir, "replay-"+tag)
	mkdirAll(dir)
	verdict, out := runReplayTest(e.repo, pkgDir, src, dir)
	return verdict, out, src
}
