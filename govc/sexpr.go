package main

import (
	"strings"
)

// minimal S-expression reader for solver (get-value ...) output
type sx struct {
	atom   string
	list   []*sx
	isList bool
}

func parseSx(s string) []*sx {
	var out []*sx
	i := 0
	var parse func() *sx
	skip := func() {
		for i < len(s) && (s[i] == ' ' || s[i] == '\n' || s[i] == '\t' || s[i] == '\r') {
			i++
		}
	}
	parse = func() *sx {
		skip()
		if i >= len(s) {
			return nil
		}
		switch s[i] {
		case '(':
			i++
			n := &sx{isList: true}
			for {
				skip()
				if i >= len(s) {
					return n
				}
				if s[i] == ')' {
					i++
					return n
				}
				c := parse()
				if c == nil {
					return n
				}
				n.list = append(n.list, c)
			}
		case '|':
			j := strings.IndexByte(s[i+1:], '|')
			if j < 0 {
				i = len(s)
				return nil
			}
			a := s[i : i+j+2]
			i += j + 2
			return &sx{atom: a}
		case '"':
			j := i + 1
			for j < len(s) {
				if s[j] == '"' {
					if j+1 < len(s) && s[j+1] == '"' {
						j += 2
						continue
					}
					break
				}
				j++
			}
			a := s[i : j+1]
			i = j + 1
			return &sx{atom: a}
		default:
			j := i
			for j < len(s) && !strings.ContainsRune(" \n\t\r()", rune(s[j])) {
				j++
			}
			a := s[i:j]
			i = j
			return &sx{atom: a}
		}
	}
	for {
		n := parse()
		if n == nil {
			break
		}
		out = append(out, n)
	}
	return out
}

func (n *sx) String() string {
	if !n.isList {
		return n.atom
	}
	ss := make([]string, len(n.list))
	for i, c := range n.list {
		ss[i] = c.String()
	}
	return "(" + strings.Join(ss, " ") + ")"
}

// intValue decodes an SMT integer value: 5, (- 5)
func (n *sx) intValue() (int64, bool) {
	if !n.isList {
		var v int64
		neg := false
		a := n.atom
		if a == "" {
			return 0, false
		}
		for _, c := range a {
			if c < '0' || c > '9' {
				return 0, false
			}
			if v > (1<<62)/10 {
				return 1 << 62, true
			}
			v = v*10 + int64(c-'0')
		}
		if neg {
			v = -v
		}
		return v, true
	}
	if len(n.list) == 2 && n.list[0].atom == "-" {
		v, ok := n.list[1].intValue()
		return -v, ok
	}
	return 0, false
}
