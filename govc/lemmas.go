package main

// Lemma library instantiation (paths). Filled in with the string/path properties.

func (e *Engine) lemmaInstances(d *decls) []*Term { return nil }
