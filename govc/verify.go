package main

// Per-function verification driver: builds the entry state from the contract,
// runs the symbolic executor, emits post / frame / cover obligations.

import (
	"fmt"
	"go/ast"
	"go/token"
	"go/types"
	"sort"
	"strings"

	"golang.org/x/tools/go/ssa"
)

type FuncResult struct {
	Key      string
	Obls     []*Obligation
	Paths    int
	Notes    []string
	Err      string
	Assumed  bool
	Missing  bool // the contract names a function that does not exist in this tree
	Callees  []string // verified callee contracts this function's proof relies on
	entryEnv *Env
}

func (e *Engine) verifyFunc(key string) (res *FuncResult) {
	c := e.cs.Funcs[key]
	res = &FuncResult{Key: key}
	if c == nil {
		res.Err = "no contract"
		return
	}
	if c.Iface || c.Assumed != "" || c.Inline {
		res.Assumed = true
		return
	}
	// symbolic names are local to one function: restarting the counter makes the queries of a function
	// independent of which functions were verified before it in the same process
	freshCounter = 0
	constTop = map[string]*Term{}
	fn := e.funcs[key]
	if fn == nil || fn.Blocks == nil {
		res.Err = "contract names a function that does not exist (or has no body): " + key
		res.Missing = true
		return
	}
	x := &Exec{eng: e, fn: fn, c: c, key: calleeShort(key), ordinals: map[*ssa.Function]map[ssa.Instruction]map[string]int{},
		loopInfo: map[*ssa.Function]*loopTable{}, notes: map[string]bool{}, params: map[string]tv{}, used: map[string]bool{}}
	defer func() {
		if r := recover(); r != nil {
			switch ee := r.(type) {
			case execAbort:
				res.Err = ee.msg
			case evalError:
				res.Err = "contract " + key + ": " + ee.msg
			default:
				// anything else (a term constructor refusing an ill-sorted comparison, an unsupported value shape): the
				// contract no longer fits the code. The function is reported as not brought under contract; the checker
				// must not crash on a changed tree.
				res.Err = fmt.Sprint("contract ", key, " does not fit the code any more (engine: ", r, ")")
			}
		}
		res.Obls = x.obls
		res.Paths = x.paths
		for n := range x.notes {
			res.Notes = append(res.Notes, n)
		}
		sort.Strings(res.Notes)
		for k := range x.used {
			res.Callees = append(res.Callees, k)
		}
		sort.Strings(res.Callees)
	}()

	curResTypes = x.trackedResultTypes()
	st := newState()
	sig := fn.Signature
	fr := &Frame{fn: fn, regs: map[ssa.Value]Value{}}
	var all []Value
	for _, p := range fn.Params {
		v := st.fresh(p.Type(), "in|"+p.Name())
		fr.regs[p] = v
		all = append(all, v)
		x.inputs = append(x.inputs, toComps(p.Type(), v)...)
		if b, ok := types.Unalias(p.Type()).Underlying().(*types.Basic); ok && b.Info()&types.IsString != 0 {
			// no Go string is longer than the address space allows
			if t, ok := v.(*Term); ok {
				st.assume(Le(mk("str.len", IntS, t), IntLit(1<<62)))
			}
		}
	}
	// a function literal under contract: each captured variable is a private cell holding an arbitrary value of
	// its type (nothing else writes it while the literal runs: interleaving is not modelled); the contract
	// refers to the captured variables by name, meaning their values on entry
	freeVals := map[string]tv{}
	for _, fv := range fn.FreeVars {
		et := fv.Type().(*types.Pointer).Elem()
		v := st.fresh(et, "in|"+fv.Name())
		st.ncell++
		cell := &Cell{id: st.ncell, name: fv.Name(), T: et}
		st.cells[cell] = v
		fr.bind = append(fr.bind, CellPtr{C: cell})
		x.inputs = append(x.inputs, toComps(et, v)...)
		freeVals[fv.Name()] = tv{x.fnTerm(st, v), et}
	}
	for oldName, newName := range e.localAliases(fn) {
		if v, ok := freeVals[newName]; ok {
			if _, has := freeVals[oldName]; !has {
				freeVals[oldName] = v
			}
		}
	}
	env := x.contractEnv(st, c, sig, all)
	for k, v := range freeVals {
		env.vars[k] = v
	}
	env.old, env.oldTop = heapSnap{}, st.top0
	x.params = env.vars
	res.entryEnv = env
	// type invariants of parameters, then requires
	x.assumeTypeInvs(st, env)
	for _, r := range c.Requires {
		st.assume(x.evalClause(env, c, "requires "+r.Label, r.Expr))
	}
	if c.Decreases != nil {
		x.entryDecr = env.evalInt(c.Decreases)
	}
	// lemma instances over the parameters are also available inside the body (loop invariants need them);
	// instances that mention results are only applied at the returns
	for _, u := range c.Uses {
		x.tryUseAtEntry(env, u)
	}
	// vacuity guard: the precondition must be satisfiable
	x.obls = append(x.obls, &Obligation{Fn: x.key, Kind: "cover.pre", Props: c.Props, PC: append([]*Term(nil), st.pc...), Goal: False, Cover: true, Inputs: x.inputs})

	entryParams := map[string]tv{}
	for k, v := range env.vars {
		entryParams[k] = v
	}
	x.runBlock(fr, fn.Blocks[0], 0, st, func(st2 *State, rets []Value) {
		x.paths++
		x.pathID++
		penv := &Env{eng: e, st: st2, vars: map[string]tv{}, pkg: env.pkg, old: heapSnap{}, oldTop: st2.top0}
		for k, v := range entryParams {
			penv.vars[k] = v
		}
		x.bindResults(penv, c, sig, rets)
		for _, u := range c.Uses {
			x.applyUse(penv, c, u)
		}
		pcAtReturn := append([]*Term(nil), st2.pc...)
		// vacuity guards: this return is reachable, and the antecedent of every implies(...) clause is reachable
		x.obls = append(x.obls, &Obligation{Fn: x.key, Kind: "cover.return", Props: c.Props, PC: append([]*Term(nil), st2.pc...), Goal: False, Cover: true, PathID: x.pathID, Inputs: x.inputs})
		for _, en := range c.Ensures {
			if call, ok := en.Expr.(*ast.CallExpr); ok && funName(call.Fun) == "implies" && len(call.Args) == 2 {
				ante := x.evalClause(penv, c, "ensures "+en.Label+" (antecedent)", call.Args[0])
				if !ante.IsFalse() {
					pc := append(append([]*Term(nil), st2.pc...), ante)
					o := &Obligation{Fn: x.key, Kind: "cover.ante." + en.Label, Props: c.Props, PC: pc, Goal: False, Cover: true, PathID: x.pathID, Inputs: x.inputs}
					if len(en.Props) > 0 {
						o.Props = en.Props
					}
					x.obls = append(x.obls, o)
				}
			}
		}
		for _, en := range c.Ensures {
			g := x.evalClause(penv, c, "ensures "+en.Label, en.Expr)
			o := &Obligation{Fn: x.key, Kind: "post." + en.Label, Props: c.Props, PC: append([]*Term(nil), st2.pc...), Goal: g, PathID: x.pathID, Inputs: x.inputs}
			if len(en.Props) > 0 {
				o.Props = en.Props
			}
			if !g.IsTrue() {
				x.obls = append(x.obls, o)
			}
		}
		// propagates clauses: a failed call of the named callee on this path means this function fails
		for _, p := range c.Propagates {
			flag, _ := st2.ghostV[failedKey(p.Label)].(*Term)
			if flag == nil || flag.IsFalse() || len(rets) == 0 || c.TrackOnly[p.Label] {
				continue
			}
			ev, ok := rets[len(rets)-1].(IfaceV)
			if !ok {
				x.fail("contract %s: propagates needs a last result of type error", c.Key)
			}
			g := Implies(flag, Not(And(Eq(ev.Tag, IntLit(0)), Eq(ev.Val, IntLit(0)))))
			o := &Obligation{Fn: x.key, Kind: "propagates." + p.Label, Props: c.Props, PC: append([]*Term(nil), st2.pc...), Goal: g, PathID: x.pathID, Inputs: x.inputs}
			if len(p.Props) > 0 {
				o.Props = p.Props
			}
			x.obls = append(x.obls, o)
		}
		x.frameCheck(st2, penv)
		// consistency guard: evaluating the clauses adds facts about the values they mention (type facts, unfolding of
		// errors.Is). Such facts are true of every value, so they can never make a satisfiable path condition
		// unsatisfiable; if they do, the engine has stated something false and every obligation of this path would hold
		// vacuously (this happened: the payload of a freshly built error was bounded by the entry heap frontier).
		if len(st2.pc) > len(pcAtReturn) {
			x.obls = append(x.obls, &Obligation{Fn: x.key, Kind: "consistent.return", Props: c.Props, PC0: pcAtReturn, PC: append([]*Term(nil), st2.pc...), Goal: False, PathID: x.pathID, Inputs: x.inputs})
		}
	})
	return
}

// applyUse assumes an instance of a library lemma (the lemma library is assumed, audited by `govc audit`).
func (x *Exec) applyUse(env *Env, c *Contract, u Clause) {
	defer func() {
		if r := recover(); r != nil {
			if ee, ok := r.(evalError); ok {
				x.fail("contract %s, use %s: %s", c.Key, u.Src, ee.msg)
			}
			panic(r)
		}
	}()
	t := env.applyLemma(u.Expr.(*ast.CallExpr))
	env.st.assume(t)
}

func (x *Exec) tryUseAtEntry(env *Env, u Clause) {
	defer func() {
		if r := recover(); r != nil {
			if _, ok := r.(evalError); ok {
				return // mentions a result: applied at the returns
			}
			panic(r)
		}
	}()
	t := env.applyLemma(u.Expr.(*ast.CallExpr))
	env.st.assume(t)
}

// assumeTypeInvs assumes declared type invariants for pointer-typed parameters.
func (x *Exec) assumeTypeInvs(st *State, env *Env) {
	for _, v := range env.vars {
		if v.T == nil {
			continue
		}
		x.assumeTypeInv(st, env, v)
	}
}

func (x *Exec) assumeTypeInv(st *State, env *Env, v tv) {
	pt, ok := types.Unalias(v.T).Underlying().(*types.Pointer)
	if !ok {
		return
	}
	n := namedOf(pt.Elem())
	if n == nil || n.Obj().Pkg() == nil {
		return
	}
	ti := x.eng.cs.TypeInvs[n.Obj().Pkg().Path()+"."+n.Obj().Name()]
	if ti == nil {
		return
	}
	c := env.child()
	c.vars = map[string]tv{ti.Var: v}
	c.pkg = n.Obj().Pkg()
	t := v.V.(*Term)
	st.assume(Implies(Neq(t, IntLit(0)), c.evalBool(ti.Expr)))
}

// frameCheck: every pre-existing heap cell outside the modifies clause is unchanged.
func (x *Exec) frameCheck(st *State, penv *Env) {
	c := x.c
	eenv := &Env{eng: x.eng, st: st, vars: penv.vars, pkg: penv.pkg, old: heapSnap{}, oldTop: st.top0, useOld: true}
	locs := x.evalLocs(eenv, c, c.Modifies)
	allowed := map[string][]*Term{}
	whole := map[string]bool{}
	for _, l := range locs {
		if l.addr == nil {
			whole[l.name] = true
		} else {
			allowed[l.name] = append(allowed[l.name], l.addr)
		}
	}
	for _, name := range sortedKeys(st.heap) {
		cur := st.heap[name]
		if cur.Op == "const" && cur.Name == name {
			continue
		}
		if whole[name] || strings.HasPrefix(name, "GW|") {
			continue // (witness arrays of range rules are local to the function)
		}
		s := arrSorts[name]
		if s == nil {
			// an array first touched by a havoc: its sort is the sort of its current value
			s = cur.Sort
			registerArrSort(name, s)
		}
		if s == nil || s.Kind != SArray {
			continue
		}
		entry := Const(name, s)
		var goal *Term
		if name == "G|world" {
			// the world token is the single cell 0
			if len(allowed[name]) > 0 || (c.Determ && !c.Pure && !c.NoWorld) {
				continue
			}
			goal = Eq(Select(cur, IntLit(0)), Select(entry, IntLit(0)))
		} else if s.Idx.Kind == SInt && !strings.HasPrefix(name, "S|") {
			a := Const(freshName("frameaddr"), IntS)
			var pre []*Term
			pre = append(pre, Le(IntLit(1), a), Le(a, st.top0))
			for _, al := range allowed[name] {
				pre = append(pre, Neq(a, al))
			}
			goal = Implies(And(pre...), Eq(Select(cur, a), Select(entry, a)))
		} else {
			goal = Eq(cur, entry)
		}
		x.obls = append(x.obls, &Obligation{Fn: x.key, Kind: "frame." + shortArr(name), Props: c.Props, PC: append([]*Term(nil), st.pc...), Goal: goal, PathID: x.pathID, Inputs: x.inputs})
	}
}

func shortArr(name string) string {
	return strings.NewReplacer("|", ".", " ", "").Replace(name)
}

var _ = fmt.Sprintf
var _ = token.NoPos
