package main

// Replay of solver models against the real code (go test -overlay, in-package test).

import (
	"bytes"
	"context"
	"encoding/base64"
	"encoding/json"
	"flag"
	"fmt"
	"go/parser"
	"go/types"
	"os"
	"os/exec"
	"path/filepath"
	"strings"
	"time"
)

func (e *Engine) resolveIface(env *Env, name string) types.Type {
	x, err := parser.ParseExpr(name)
	if err != nil {
		return nil
	}
	t := env.resolveType(x)
	if t == nil || !types.IsInterface(t) {
		return nil
	}
	return t
}

func implementsEither(t, iface types.Type) bool {
	it := iface.Underlying().(*types.Interface)
	return types.Implements(t, it) || types.Implements(types.NewPointer(t), it)
}

// replay returns (verdict, output, test source). Verdicts: confirmed, not-reproduced, not-replayable.
func (e *Engine) replay(fr *FuncResult, r oblResult, outDir string) (verdict, out, test string) {
	if fr == nil || fr.entryEnv == nil {
		return "not-replayable", "", ""
	}
	defer func() {
		if rec := recover(); rec != nil {
			verdict, out, test = "not-replayable", fmt.Sprint("replay adapter failed: ", rec), ""
		}
	}()
	for _, ad := range replayAdapters {
		if ad.match(fr.Key) {
			return ad.run(e, fr, r, outDir)
		}
	}
	if e.scalarReplayable(fr.Key) {
		return replayScalar(e, fr, r, outDir)
	}
	return "not-replayable", "no replay adapter for " + calleeShort(fr.Key), ""
}

// lastReplayTest: the test source as it was run (with the self-describing header), for the replay file.
var lastReplayTest string

type replayAdapter struct {
	search bool // finds inputs by a small-scope search of its own: does not need the solver's model
	match  func(key string) bool
	run    func(e *Engine, fr *FuncResult, r oblResult, outDir string) (string, string, string)
}

var replayAdapters []replayAdapter

type probe struct {
	name string
	term *Term
}

// modelValues re-solves a failing query (optionally in a small scope) and reads the probes' values.
func (e *Engine) modelValues(o *Obligation, probes []probe, bounds []*Term, outDir string, tag string) (map[string]*sx, bool) {
	d := newDecls()
	for _, p := range o.PC {
		d.visit(p)
	}
	d.visit(o.Goal)
	for _, b := range bounds {
		d.visit(b)
	}
	for _, p := range probes {
		d.visit(p.term)
	}
	bg := e.background(d)
	for _, b := range bg {
		d.visit(b)
	}
	var sb strings.Builder
	sb.WriteString("(set-option :produce-models true)\n(set-logic ALL)\n")
	d.emit(&sb)
	for _, b := range bg {
		sb.WriteString("(assert " + b.String() + ")\n")
	}
	for _, p := range o.PC {
		sb.WriteString("(assert " + p.String() + ")\n")
	}
	sb.WriteString("(assert (not " + o.Goal.String() + "))\n")
	for _, b := range bounds {
		sb.WriteString("(assert " + b.String() + ")\n")
	}
	sb.WriteString("(check-sat)\n(get-value (")
	for _, p := range probes {
		sb.WriteString(p.term.String() + " ")
	}
	sb.WriteString("))\n")
	file := filepath.Join(outDir, "replay-query-"+tag+".smt2")
	os.WriteFile(file, []byte(sb.String()), 0o644)
	for _, sp := range solvers[:2] {
		st, out, _ := runSolver(context.Background(), sp, file, 10)
		if st != "sat" {
			continue
		}
		i := strings.Index(out, "\n")
		if i < 0 {
			continue
		}
		xs := parseSx(out[i+1:])
		if len(xs) == 0 || !xs[0].isList || len(xs[0].list) != len(probes) {
			continue
		}
		m := map[string]*sx{}
		for j, p := range probes {
			pair := xs[0].list[j]
			if pair.isList && len(pair.list) == 2 {
				m[p.name] = pair.list[1]
			}
		}
		return m, true
	}
	return nil, false
}

func runReplayTest(repo, pkgDir, testSrc, outDir string) (string, string) {
	return runReplayTestExtra(repo, pkgDir, testSrc, outDir, nil)
}

// runReplayTestExtra also injects further files (repository-relative path -> content), e.g. a shim that makes an
// unexported package-level constant of another package readable by the generated test. Nothing is written to the repository.
func runReplayTestExtra(repo, pkgDir, testSrc, outDir string, extra map[string]string) (string, string) {
	// self-describing: `govc replayfile` re-runs a replay from the test source alone
	hdr := "// govc-replay-pkg: " + pkgDir + "\n"
	for _, rel := range sortedKeys(extra) {
		hdr += "// govc-replay-extra: " + rel + " " + base64.StdEncoding.EncodeToString([]byte(extra[rel])) + "\n"
	}
	testSrc = hdr + testSrc
	lastReplayTest = testSrc
	testFile := filepath.Join(outDir, "govc_replay_test.go")
	os.WriteFile(testFile, []byte(testSrc), 0o644)
	ov := map[string]map[string]string{"Replace": {filepath.Join(repo, pkgDir, "govc_replay_test.go"): testFile}}
	i := 0
	for rel, content := range extra {
		i++
		f := filepath.Join(outDir, fmt.Sprintf("govc_extra_%d.go", i))
		os.WriteFile(f, []byte(content), 0o644)
		ov["Replace"][filepath.Join(repo, rel)] = f
	}
	ovb, _ := json.Marshal(ov)
	ovFile := filepath.Join(outDir, "overlay.json")
	os.WriteFile(ovFile, ovb, 0o644)
	ctx, cancel := context.WithTimeout(context.Background(), 120*time.Second)
	defer cancel()
	cmd := exec.CommandContext(ctx, "go", "test", "-overlay", ovFile, "-vet=off", "-timeout", "60s", "-count=1", "-v", "-run", "TestGovcReplay", "./"+pkgDir)
	cmd.Dir = repo
	cmd.Env = append(os.Environ(), "GOFLAGS=-mod=mod", "GOPROXY=off", "GOSUMDB=off", "GOTOOLCHAIN=local")
	var buf bytes.Buffer
	cmd.Stdout, cmd.Stderr = &buf, &buf
	_ = cmd.Run()
	out := buf.String()
	switch {
	case strings.Contains(out, "GOVC-REPLAY confirmed"):
		return "confirmed", out
	case strings.Contains(out, "GOVC-REPLAY not-reproduced"):
		return "not-reproduced", out
	case strings.Contains(out, "panic:") || strings.Contains(out, "fatal error:") || strings.Contains(out, "test timed out"):
		return "confirmed", out
	}
	return "not-replayable", out
}

func sxInt(m map[string]*sx, k string, def int64) int64 {
	if v, ok := m[k]; ok {
		if i, ok := v.intValue(); ok {
			return i
		}
	}
	return def
}

func filepath_join(a ...string) string { return filepath.Join(a...) }
func mkdirAll(d string)                { os.MkdirAll(d, 0o755) }

// searchReplayable: an adapter that does not need a model serves this function.
func searchReplayable(key string) bool {
	for _, ad := range replayAdapters {
		if ad.search && ad.match(key) {
			return true
		}
	}
	return false
}

// cmdReplayFile re-runs the replay recorded in a replay file written by `govc check` against a repository.
func cmdReplayFile(args []string) {
	fs := flag.NewFlagSet("replayfile", flag.ExitOnError)
	repo := fs.String("repo", "/repo", "repository")
	file := fs.String("file", "", "replay file (JSON written by govc check)")
	fs.Parse(args)
	b, err := os.ReadFile(*file)
	if err != nil {
		fmt.Fprintln(os.Stderr, err)
		os.Exit(2)
	}
	var rep map[string]interface{}
	if err := json.Unmarshal(b, &rep); err != nil {
		fmt.Fprintln(os.Stderr, err)
		os.Exit(2)
	}
	fmt.Println("obligation:", rep["obligation"])
	test, _ := rep["replay_test"].(string)
	if test == "" {
		fmt.Println("no generated test in this replay file (no-failing-input-found); solver verdict:", rep["solver_status"], "-", rep["solver_detail"])
		if e, ok := rep["error"]; ok {
			fmt.Println("reason:", e)
		}
		os.Exit(1)
	}
	pkgDir := "."
	extra := map[string]string{}
	for _, l := range strings.Split(test, "\n") {
		if strings.HasPrefix(l, "// govc-replay-pkg: ") {
			pkgDir = strings.TrimPrefix(l, "// govc-replay-pkg: ")
		}
		if strings.HasPrefix(l, "// govc-replay-extra: ") {
			f := strings.Fields(strings.TrimPrefix(l, "// govc-replay-extra: "))
			if len(f) == 2 {
				if c, err := base64.StdEncoding.DecodeString(f[1]); err == nil {
					extra[f[0]] = string(c)
				}
			}
		}
	}
	dir, _ := os.MkdirTemp("", "govc-replay")
	defer os.RemoveAll(dir)
	// strip the header: runReplayTestExtra adds it again
	var body []string
	for _, l := range strings.Split(test, "\n") {
		if !strings.HasPrefix(l, "// govc-replay-") {
			body = append(body, l)
		}
	}
	verdict, out := runReplayTestExtra(*repo, pkgDir, strings.Join(body, "\n"), dir, extra)
	fmt.Println(out)
	fmt.Println("replay verdict:", verdict)
	if verdict == "confirmed" {
		os.Exit(1)
	}
}
