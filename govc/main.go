package main

import (
	"encoding/json"
	"flag"
	"fmt"
	"os"
	"sort"
	"strings"
	"sync"
	"time"
)

func main() {
	if len(os.Args) < 2 {
		fmt.Fprintln(os.Stderr, "usage: govc verify|check|audit ...")
		os.Exit(2)
	}
	switch os.Args[1] {
	case "verify":
		cmdVerify(os.Args[2:])
	case "check":
		cmdCheck(os.Args[2:])
	case "audit":
		cmdAudit(os.Args[2:])
	case "implscan":
		cmdImplScan(os.Args[2:])
	case "mutate":
		cmdMutate(os.Args[2:])
	case "replayfile":
		cmdReplayFile(os.Args[2:])
	case "memfs-selfcheck":
		cmdMemfsSelfcheck(os.Args[2:])
	case "locals":
		cmdLocals(os.Args[2:])
	default:
		fmt.Fprintln(os.Stderr, "unknown command")
		os.Exit(2)
	}
}

type oblResult struct {
	o *Obligation
	r *SolveResult
}

func (e *Engine) discharge(obls []*Obligation, outDir string, timeoutS, workers int) []oblResult {
	res := make([]oblResult, len(obls))
	var wg sync.WaitGroup
	sem := make(chan struct{}, workers)
	for i, o := range obls {
		wg.Add(1)
		sem <- struct{}{}
		go func(i int, o *Obligation) {
			defer wg.Done()
			defer func() { <-sem }()
			defer func() {
				if r := recover(); r != nil { // an obligation the encoder cannot handle is undischarged, not a crash
					res[i] = oblResult{o, &SolveResult{Status: "error", Detail: fmt.Sprint("encoder failure: ", r)}}
				}
			}()
			res[i] = oblResult{o, e.solve(o, outDir, i, timeoutS, false)}
		}(i, o)
	}
	wg.Wait()
	// a timeout may be the machine's load rather than the query: the first few timed-out queries are run again,
	// three at a time and with three times the limit, before they count as undischarged
	retried := 0
	sem2 := make(chan struct{}, 3)
	for i := range res {
		if res[i].r == nil || res[i].r.Status != "timeout" || res[i].o.Cover || retried >= 16 {
			continue
		}
		retried++
		wg.Add(1)
		sem2 <- struct{}{}
		go func(i int) {
			defer wg.Done()
			defer func() { <-sem2 }()
			e.forget(res[i].o)
			r2 := e.solve(res[i].o, outDir, 80000+i, 3*timeoutS, false)
			r2.Detail = "retried after a timeout: " + r2.Detail
			res[i].r = r2
		}(i)
	}
	wg.Wait()
	return res
}

// cmdVerify: developer command — verify the functions whose key contains -fn.
func cmdVerify(args []string) {
	fs := flag.NewFlagSet("verify", flag.ExitOnError)
	repo := fs.String("repo", "/repo", "repository")
	pat := fs.String("fn", "", "substring of function key")
	verbose := fs.Bool("v", false, "verbose")
	out := fs.String("out", "/verif/out/dev", "output dir for VCs")
	timeout := fs.Int("timeout", 10, "solver timeout (s)")
	exact := fs.Bool("exact", false, "-fn names one function key exactly")
	explain := fs.Bool("explain", false, "for sat failures, show which goal conjuncts are false in the model")
	fs.Parse(args)
	t0 := time.Now()
	eng, err := loadEngine(*repo)
	if err != nil {
		fmt.Fprintln(os.Stderr, err)
		os.Exit(2)
	}
	fmt.Printf("loaded in %.1fs, %d contracts\n", time.Since(t0).Seconds(), len(eng.cs.Funcs))
	os.RemoveAll(*out)
	os.MkdirAll(*out, 0o755)
	keys := sortedKeys(eng.cs.Funcs)
	bad := 0
	for _, k := range keys {
		if *pat != "" && !strings.Contains(k, *pat) {
			continue
		}
		if *exact && k != *pat {
			continue
		}
		fr := eng.verifyFunc(k)
		if fr.Assumed {
			fmt.Printf("== %s: assumed\n", calleeShort(k))
			continue
		}
		fmt.Printf("== %s: %d paths, %d obligations\n", calleeShort(k), fr.Paths, len(fr.Obls))
		if fr.Err != "" {
			fmt.Printf("   ERROR: %s\n", fr.Err)
			bad++
		}
		for _, n := range fr.Notes {
			fmt.Printf("   note: %s\n", n)
		}
		dir := *out + "/" + strings.NewReplacer("/", "_", "(", "", ")", "", "*", "").Replace(calleeShort(k))
		os.MkdirAll(dir, 0o755)
		rs := eng.discharge(fr.Obls, dir, *timeout, 8)
		byName := map[string][]oblResult{}
		for _, r := range rs {
			byName[r.o.Kind] = append(byName[r.o.Kind], r)
		}
		names := make([]string, 0, len(byName))
		for n := range byName {
			names = append(names, n)
		}
		sort.Strings(names)
		for _, n := range names {
			ok := true
			var worst oblResult
			tot := 0.0
			anySat := false
			for _, r := range byName[n] {
				tot += r.r.Seconds
				if r.o.Cover {
					worst = r
					if r.r.Status == "sat" {
						anySat = true
					}
					continue
				}
				if r.r.Status != "unsat" {
					ok = false
					worst = r
				}
			}
			if len(byName[n]) > 0 && byName[n][0].o.Cover {
				ok = anySat
			}
			if ok {
				if *verbose {
					fmt.Printf("   ok   %-50s x%d %.2fs\n", n, len(byName[n]), tot)
				}
				continue
			}
			bad++
			fmt.Printf("   FAIL %-50s %s [%s] %s\n        %s\n        %s\n", n, worst.r.Status, worst.r.Detail, worst.o.Pos, worst.r.File, strings.ReplaceAll(worst.r.Model, "\n", " "))
			if *explain && worst.r.Status == "sat" && !worst.o.Cover {
				eng.explain(worst.o, dir)
			}
		}
	}
	fmt.Printf("done in %.1fs, %d problems\n", time.Since(t0).Seconds(), bad)
}

// explain: evaluate the goal's conjuncts in a model of the failing query.
func (e *Engine) explain(o *Obligation, dir string) {
	var parts []*Term
	var flat func(t *Term, hyp bool)
	flat = func(t *Term, hyp bool) {
		switch {
		case t.Op == "and":
			for _, a := range t.Args {
				flat(a, hyp)
			}
		case t.Op == "=>" && !hyp:
			flat(t.Args[0], true)
			flat(t.Args[1], false)
		default:
			if t.Op == "forall" || t.Op == "exists" {
				return
			}
			parts = append(parts, t)
		}
	}
	flat(o.Goal, false)
	var probes []probe
	for i, p := range parts {
		if i >= 40 {
			break
		}
		probes = append(probes, probe{fmt.Sprintf("c%d", i), p})
	}
	m, ok := e.modelValues(o, probes, nil, dir, "explain")
	if !ok {
		fmt.Println("        (no model for explanation)")
		return
	}
	for i, p := range probes {
		s := p.term.String()
		if len(s) > explainWidth() {
			s = s[:explainWidth()] + "..."
		}
		fmt.Printf("        [%s] %s\n", m[fmt.Sprintf("c%d", i)], s)
	}
}

func explainWidth() int {
	if v := os.Getenv("GOVC_EXPLAIN_WIDTH"); v != "" {
		var n int
		fmt.Sscanf(v, "%d", &n)
		if n > 160 {
			return n
		}
	}
	return 160
}

// cmdMemfsSelfcheck: developer command - runs the memfs replay adapter on every ensures clause of the namespace
// operations on the given tree. On a tree where the contracts hold every clause must come back not-reproduced
// (or not-replayable): a "confirmed" is a bug of the adapter's runtime or a defect of the tree.
func cmdMemfsSelfcheck(args []string) {
	fs := flag.NewFlagSet("memfs-selfcheck", flag.ExitOnError)
	repo := fs.String("repo", "/repo", "repository")
	out := fs.String("out", "/verif/out/memfs-selfcheck", "output dir")
	only := fs.String("fn", "", "only this operation")
	knownPath := fs.String("known", "/verif/known_findings.json", "known findings: a confirmed replay of a listed obligation is expected")
	fs.Parse(args)
	var known KnownFile
	if b, err := os.ReadFile(*knownPath); err == nil {
		_ = json.Unmarshal(b, &known)
	}
	isKnown := func(name string) bool {
		for _, kf := range known.Findings {
			if kf.Obligation == name {
				return true
			}
		}
		return false
	}
	eng, err := loadEngine(*repo)
	if err != nil {
		fmt.Fprintln(os.Stderr, err)
		os.Exit(2)
	}
	os.MkdirAll(*out, 0o755)
	bad := 0
	for _, op := range sortedKeys(memfsOps) {
		if *only != "" && *only != op {
			continue
		}
		key := "github.com/hack-pad/hackpadfs/keyvalue.(*FS)." + op
		c := eng.cs.Funcs[key]
		if c == nil {
			continue
		}
		for _, en := range c.Ensures {
			o := &Obligation{Fn: calleeShort(key), Kind: "post." + en.Label}
			v, outp, _ := replayMemFS(eng, &FuncResult{Key: key}, oblResult{o: o, r: &SolveResult{}}, *out)
			line := ""
			for _, l := range strings.Split(outp, "\n") {
				if strings.Contains(l, "GOVC-REPLAY") || strings.Contains(l, "replay translation") {
					line = l
				}
			}
			if v == "not-replayable" && line == "" {
				ls := strings.Split(strings.TrimSpace(outp), "\n")
				if len(ls) > 0 {
					line = ls[0]
				}
			}
			fmt.Printf("%-10s %-28s %-16s %s\n", op, en.Label, v, truncate(line, 220))
			if v == "confirmed" {
				if isKnown(o.Name()) {
					fmt.Printf("           (known finding: the recorded input class replays)\n")
				} else {
					bad++
				}
			}
		}
	}
	if bad > 0 {
		os.Exit(1)
	}
}

func truncate(s string, n int) string {
	if len(s) > n {
		return s[:n]
	}
	return s
}
