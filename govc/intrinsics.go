package main

// Assumed contracts of standard-library functions (DESIGN.md appendix E), applied in place.

import (
	"fmt"
	"go/types"
	"strings"

	"golang.org/x/tools/go/ssa"
)

func heldArr(st *State) *Term { return st.arr("G|held", ArrayS(IntS, BoolS)) }

func (x *Exec) trusted(what string) { x.eng.trusted[what] = true; x.note("assumed contract", what) }

func (x *Exec) newOpaqueError(st *State, kind string) Value {
	id := st.alloc()
	return IfaceV{pseudoTag(kind), id}
}

// intrinsic returns (results, ok, handled). handled && !ok means the intrinsic invoked k itself.
func (x *Exec) intrinsic(fr *Frame, st *State, fn *ssa.Function, args []Value, site ssa.Instruction, k cont) ([]Value, bool, bool) {
	name := fn.String()
	pos := site.Pos()
	switch name {
	case "(*sync.Mutex).Lock", "(*sync.RWMutex).Lock", "(*sync.RWMutex).RLock":
		x.trusted("sync.Mutex: Lock/Unlock as a held-by-this-execution flag; Lock of a held mutex is a self-deadlock")
		m := args[0].(*Term)
		x.check(st, x.site(fr, site, "nilderef"), Neq(m, IntLit(0)), pos)
		x.check(st, x.site(fr, site, "lock")+".selfdeadlock", Not(Select(heldArr(st), m)), pos)
		st.setArr("G|held", Store(heldArr(st), m, True))
		return nil, true, true
	case "(*sync.Mutex).Unlock", "(*sync.RWMutex).Unlock", "(*sync.RWMutex).RUnlock":
		m := args[0].(*Term)
		x.check(st, x.site(fr, site, "nilderef"), Neq(m, IntLit(0)), pos)
		x.check(st, x.site(fr, site, "unlock")+".notheld", Select(heldArr(st), m), pos)
		st.setArr("G|held", Store(heldArr(st), m, False))
		return nil, true, true
	case "sync/atomic.LoadInt64":
		x.trusted("sync/atomic: sequential meaning")
		pt := types.Typ[types.Int64]
		return []Value{st.load(args[0], pt)}, true, true
	case "sync/atomic.StoreInt64":
		st.store(args[0], types.Typ[types.Int64], args[1])
		return nil, true, true
	case "sync/atomic.AddInt64":
		x.trusted("sync/atomic: sequential meaning")
		cur := st.load(args[0], types.Typ[types.Int64]).(*Term)
		nv := Add(cur, args[1].(*Term))
		x.check(st, fmt.Sprintf("%soverflow.atomic@%d", fr.prefix, x.ordinal(fr.fn, site, "call")), And(Le(BigLit(minInt64), nv), Le(nv, BigLit(maxInt64))), pos)
		st.store(args[0], types.Typ[types.Int64], nv)
		return []Value{nv}, true, true
	case "fmt.Errorf":
		x.trusted("fmt.Errorf / errors.New: fresh non-nil error that matches no sentinel (no %w is used in the repository)")
		return []Value{x.newOpaqueError(st, "fmtError")}, true, true
	case "errors.New":
		x.trusted("fmt.Errorf / errors.New: fresh non-nil error that matches no sentinel (no %w is used in the repository)")
		return []Value{x.newOpaqueError(st, "errorString")}, true, true
	case "errors.Is":
		x.trusted("errors.Is: unfolded through *PathError, *LinkError, syscall.Errno (Errno.Is table audited); other dynamic types uninterpreted")
		a, b := args[0].(IfaceV), args[1].(IfaceV)
		return []Value{x.eng.errIs(st.heap, a, b, 3, func(f *Term) { st.assume(f) })}, true, true
	case "(*sync.Once).Do":
		x.trusted("sync.Once.Do(f): if !done { f(); done = true }")
		o := args[0].(*Term)
		done := st.arr("G|oncedone", ArrayS(IntS, BoolS))
		isDone := Select(done, o)
		f, ok := args[1].(ClosureV)
		if !ok {
			x.fail("Once.Do with unknown function value")
		}
		st2, fr2 := st.clone(), fr.clone()
		// already done
		st2.assume(isDone)
		if !st2.dead {
			k(st2, nil)
		}
		st.assume(Not(isDone))
		if !st.dead {
			st.setArr("G|oncedone", Store(done, o, True))
			x.callFunc(fr, st, f.Fn, f.Bind, nil, site, func(st3 *State, _ []Value) { k(st3, nil) })
		}
		_ = fr2
		return nil, false, true
	case "time.Now":
		x.trusted("time.Now: some non-zero instant")
		t := Const(freshName("now"), IntS)
		st.assume(Neq(t, IntLit(0)))
		return []Value{t}, true, true
	case "(io/fs.FileMode).IsDir":
		m := args[0].(*Term)
		return []Value{Neq(BVOp("bvand", m, BVLit(1<<31, 32)), BVLit(0, 32))}, true, true
	case "(io/fs.FileMode).IsRegular":
		m := args[0].(*Term)
		// ModeType = ModeDir | ModeSymlink | ModeNamedPipe | ModeSocket | ModeDevice | ModeCharDevice | ModeIrregular
		return []Value{Eq(BVOp("bvand", m, BVLit(modeTypeMask, 32)), BVLit(0, 32))}, true, true
	case "(io/fs.FileMode).Perm":
		return []Value{BVOp("bvand", args[0].(*Term), BVLit(0777, 32))}, true, true
	case "(io/fs.FileMode).Type":
		return []Value{BVOp("bvand", args[0].(*Term), BVLit(modeTypeMask, 32))}, true, true
	case "io/fs.ValidPath":
		x.trusted("io/fs.ValidPath: uninterpreted predicate + audited lemma library")
		return []Value{validPath(args[0].(*Term))}, true, true
	case "context.Background", "context.TODO":
		x.trusted("context: Background is never cancelled; WithCancel(parent) yields a context that is done iff it or its parent was cancelled; Done()/Err() reflect that flag")
		st.assume(Not(Select(cancelledArr(st), IntLit(0))))
		return []Value{IfaceV{pseudoTag("context.background"), IntLit(0)}}, true, true
	case "context.WithCancel":
		x.trusted("context: Background is never cancelled; WithCancel(parent) yields a context that is done iff it or its parent was cancelled; Done()/Err() reflect that flag")
		parent := args[0].(IfaceV)
		c := st.alloc()
		ca := cancelledArr(st)
		st.setArr("G|cancelled", Store(ca, c, Select(ca, parent.Val)))
		cancel := App("cancelfn", IntS, c)
		st.assume(Eq(App("ctxOfCancel", IntS, cancel), c))
		st.assume(Le(IntLit(1), cancel))
		return []Value{IfaceV{pseudoTag("context.cancelCtx"), c}, cancel}, true, true
	}
	if r, ok := x.stringIntrinsic(fr, st, name, args, site); ok {
		return r, true, true
	}
	if handled := x.syncMapIntrinsic(fr, st, fn, name, args, site, k); handled != 0 {
		return nil, false, true
	}
	_ = strings.HasPrefix
	return nil, false, false
}

const modeTypeMask = uint64(1<<31 | 1<<27 | 1<<25 | 1<<24 | 1<<26 | 1<<21 | 1<<19)

func cancelledArr(st *State) *Term { return st.arr("G|cancelled", ArrayS(IntS, BoolS)) }

func (x *Exec) invokeIntrinsic(fr *Frame, st *State, cc *ssa.CallCommon, recv IfaceV, args []Value, site ssa.Instruction) ([]Value, bool) {
	if isNamed(types.Unalias(cc.Value.Type()), "context", "Context") {
		x.trusted("context: Background is never cancelled; WithCancel(parent) yields a context that is done iff it or its parent was cancelled; Done()/Err() reflect that flag")
		switch cc.Method.Name() {
		case "Done":
			return []Value{App("donechan", IntS, recv.Val)}, true
		case "Err":
			canc := x.eng.globalByName("context", "Canceled").(IfaceV)
			c := Select(cancelledArr(st), recv.Val)
			return []Value{IfaceV{Ite(c, canc.Tag, IntLit(0)), Ite(c, canc.Val, IntLit(0))}}, true
		}
	}
	return nil, false
}

// callCancel: the effect of calling a context.CancelFunc value.
func (x *Exec) callCancel(st *State, f *Term) {
	var c *Term
	if f.Op == "app" && f.Name == "cancelfn" {
		c = f.Args[0]
	} else {
		c = App("ctxOfCancel", IntS, f)
	}
	st.setArr("G|cancelled", Store(cancelledArr(st), c, True))
}
