package main

// Calls (by contract, inlined, intrinsic), loops, and the per-function driver.

import (
	"context"
	"fmt"
	"go/ast"
	"go/parser"
	"go/token"
	"go/types"
	"os"
	"sort"
	"strings"

	"golang.org/x/tools/go/ssa"
)

type locRef struct {
	name string
	sort *Sort // sort of the whole named array
	addr *Term // nil: whole array
}

// evalLoc resolves a modifies-location expression to heap array cells.
func (e *Env) evalLoc(x ast.Expr) []locRef {
	var out []locRef
	addStructFields := func(t types.Type, addr *Term) {}
	var addField func(owner *types.Named, idx int, obj *Term)
	addField = func(owner *types.Named, idx int, obj *Term) {
		f := structOf(owner).Field(idx)
		if isPlainStruct(f.Type()) {
			n := namedOf(f.Type())
			for i := 0; i < structOf(n).NumFields(); i++ {
				addField(n, i, embAddr(owner, idx, obj))
			}
			return
		}
		for _, c := range comps(f.Type()) {
			out = append(out, locRef{fieldArrName(owner, f.Name(), c.suffix), ArrayS(IntS, c.sort), obj})
		}
	}
	_ = addStructFields
	switch n := x.(type) {
	case *ast.ParenExpr:
		return e.evalLoc(n.X)
	case *ast.SelectorExpr:
		base := e.eval(n.X)
		obj, path, _ := types.LookupFieldOrMethod(base.T, true, e.pkgOfType(base.T), n.Sel.Name)
		if _, ok := obj.(*types.Var); !ok {
			if alias := fieldAlias(base.T, n.Sel.Name); alias != "" {
				renamedFields[n.Sel.Name+" is now "+alias+" in "+types.TypeString(base.T, nil)] = true
				obj, path, _ = types.LookupFieldOrMethod(base.T, true, e.pkgOfType(base.T), alias)
			}
		}
		if _, ok := obj.(*types.Var); !ok {
			evalFail("modifies: no field %s", n.Sel.Name)
		}
		cur, curT := base.V, base.T
		for i, idx := range path {
			pt, ok := types.Unalias(curT).Underlying().(*types.Pointer)
			if !ok {
				evalFail("modifies: field path must go through pointers")
			}
			owner := namedOf(pt.Elem())
			ot := cur.(*Term)
			f := structOf(owner).Field(idx)
			if i == len(path)-1 {
				addField(owner, idx, ot)
				return out
			}
			if isPlainStruct(f.Type()) {
				cur, curT = embAddr(owner, idx, ot), types.NewPointer(f.Type())
			} else {
				cur, curT = readField(e.h(), owner, idx, ot), f.Type()
			}
		}
	case *ast.StarExpr:
		p := e.eval(n.X)
		pt := types.Unalias(p.T).Underlying().(*types.Pointer).Elem()
		pv := p.V.(*Term)
		if isPlainStruct(pt) {
			owner := namedOf(pt)
			for i := 0; i < structOf(owner).NumFields(); i++ {
				addField(owner, i, pv)
			}
		} else {
			for _, c := range comps(pt) {
				out = append(out, locRef{ptrArrName(pt, c.suffix), ArrayS(IntS, c.sort), pv})
			}
		}
		return out
	case *ast.CallExpr:
		switch funName(n.Fun) {
		case "elems":
			s, ok := e.eval(n.Args[0]).V.(SliceV)
			if !ok {
				evalFail("elems() of non-slice")
			}
			for _, c := range comps(s.Elem) {
				out = append(out, locRef{elemArrName(s.Elem, c.suffix), ArrayS(IntS, ArrayS(IntS, c.sort)), s.Ref})
			}
			return out
		case "held":
			m := e.eval(n.Args[0]).V.(*Term)
			return []locRef{{"G|held", ArrayS(IntS, BoolS), m}}
		case "oncedone":
			return []locRef{{"G|oncedone", ArrayS(IntS, BoolS), e.eval(n.Args[0]).V.(*Term)}}
		case "world":
			return []locRef{{"G|world", ArrayS(IntS, IntS), IntLit(0)}}
		case "cancelled":
			c, ok := e.eval(n.Args[0]).V.(IfaceV)
			if !ok {
				evalFail("cancelled() location expects a context")
			}
			return []locRef{{"G|cancelled", ArrayS(IntS, BoolS), c.Val}}
		case "gint", "gbool", "garr":
			lit := n.Args[0].(*ast.BasicLit)
			gname := strings.Trim(lit.Value, `"`)
			var es *Sort
			switch funName(n.Fun) {
			case "gint":
				es = IntS
			case "gbool":
				es = BoolS
			default:
				es = ArrayS(IntS, IntS)
			}
			return []locRef{{"G|" + gname, ArrayS(IntS, es), e.eval(n.Args[1]).V.(*Term)}}
		case "ghost":
			// ghost("name"): a whole ghost array
			lit := n.Args[0].(*ast.BasicLit)
			name := strings.Trim(lit.Value, `"`)
			if s, ok := arrSorts[name]; ok {
				return []locRef{{name, s, nil}}
			}
			return nil
		case "mapOf":
			v := e.eval(n.Args[0])
			mv, ok := v.V.(mapV)
			if !ok {
				evalFail("mapOf() of non-map")
			}
			ks, _ := scalarSort(mv.KeyT)
			out = append(out, locRef{mv.Name + "|dom", ArrayS(IntS, ArrayS(ks, BoolS)), mv.Addr})
			for _, c := range comps(mv.ValT) {
				out = append(out, locRef{mv.Name + "|val" + c.suffix, ArrayS(IntS, ArrayS(ks, c.sort)), mv.Addr})
			}
			return out
		}
		// macro that expands to a location list? not supported
	}
	evalFail("unsupported modifies location %s", exprText(x))
	return nil
}

func exprText(x ast.Expr) string {
	var b strings.Builder
	ast.Fprint(&b, token.NewFileSet(), x, nil)
	return fmt.Sprintf("%T", x)
}

func (x *Exec) havoc(st *State, locs []locRef) {
	for _, l := range locs {
		cur := st.arr(l.name, l.sort)
		if l.addr == nil {
			st.heap[l.name] = Const(freshName(l.name), l.sort)
			x.pendingTop = append(x.pendingTop, st.heap[l.name].Name)
			continue
		}
		fc := Const(freshName(l.name+"@"), l.sort.Elem)
		x.pendingTop = append(x.pendingTop, fc.Name)
		st.setArr(l.name, Store(cur, l.addr, fc))
	}
}

// flushTop: constants created by the last havoc are bounded by the frontier after it.
func (x *Exec) flushTop(st *State) {
	for _, n := range x.pendingTop {
		constTop[n] = st.heaptop
	}
	x.pendingTop = nil
}

// ---- deterministic contracts: results as functions of (world, arguments) ----

func worldOf(h map[string]*Term) *Term {
	return Select(heapArr(h, "G|world", ArrayS(IntS, IntS)), IntLit(0))
}

// detArgs flattens receiver and arguments to scalar terms (slices by header, interfaces by tag and payload).
func detArgs(sig *types.Signature, all []Value) []*Term { return detArgsFor(nil, sig, all) }

// detArgsFor restricts the arguments to those named in the contract's detargs clause (if any).
func detArgsFor(c *Contract, sig *types.Signature, all []Value) []*Term {
	want := func(name string, isRecv bool) bool {
		if c == nil || c.DetArgs == nil {
			return true
		}
		for _, n := range c.DetArgs {
			if n == name || (isRecv && n == "self") {
				return true
			}
		}
		return false
	}
	var out []*Term
	i := 0
	if sig.Recv() != nil {
		rn := "self"
		if c != nil && c.RecvName != "" {
			rn = c.RecvName
		}
		if want(rn, true) {
			out = append(out, toComps(sig.Recv().Type(), all[0])...)
		}
		i = 1
	}
	for j := 0; j < sig.Params().Len(); j++ {
		name := sig.Params().At(j).Name()
		if c != nil && j < len(c.Params) {
			name = c.Params[j]
		}
		if want(name, false) {
			out = append(out, toComps(sig.Params().At(j).Type(), all[i+j])...)
		}
	}
	return out
}

func detResult(key string, j int, rt types.Type, w0 *Term, args []*Term) Value {
	cs := comps(rt)
	ts := make([]*Term, len(cs))
	for i, c := range cs {
		ts[i] = App(fmt.Sprintf("det|%s|%d%s", calleeShort(key), j, c.suffix), c.sort, append([]*Term{w0}, args...)...)
	}
	v, _ := fromComps(rt, ts)
	return v
}

func calleeShort(key string) string {
	s := strings.TrimPrefix(key, modPath+"/")
	s = strings.TrimPrefix(s, modPath+".")
	return s
}

// contractEnv binds a contract's parameter names to values.
// fnTerm turns a known function value into a term (so it can be passed to contracts or stored); the
// state remembers which function the term stands for.
func (x *Exec) fnTerm(st *State, v Value) Value {
	cv, ok := v.(ClosureV)
	if !ok {
		return v
	}
	var t *Term
	if len(cv.Bind) == 0 {
		t = Const("fn|"+cv.Fn.String(), IntS)
	} else {
		t = st.alloc()
	}
	st.clos[t.Key()] = cv
	if len(cv.Bind) == 0 {
		st.assume(Le(IntLit(1), t))
	}
	if returnsOnlyNil(cv.Fn) {
		st.assume(App("noopfn", BoolS, t))
	}
	if returnsEmptyBytes(cv.Fn) {
		st.assume(App("emptyblobfn", BoolS, t))
	}
	return t
}

// returnsEmptyBytes: a function literal whose whole body is `return blob.NewBytes(nil), nil`
// (decided syntactically on its naive-form SSA: locals for the results, one call of NewBytes(nil),
// its conversion to the interface, stores of that value and of a nil error, the return).
func returnsEmptyBytes(fn *ssa.Function) bool {
	if len(fn.Blocks) != 1 || len(fn.Params) != 0 || len(fn.FreeVars) != 0 || fn.Signature.Results().Len() != 2 {
		return false
	}
	var call *ssa.Call
	var mk *ssa.MakeInterface
	storedMk, storedNil, returned := false, false, false
	for _, in := range fn.Blocks[0].Instrs {
		switch n := in.(type) {
		case *ssa.DebugRef, *ssa.Alloc, *ssa.RunDefers:
		case *ssa.UnOp:
			if _, ok := n.X.(*ssa.Alloc); !ok || n.Op != token.MUL {
				return false
			}
		case *ssa.Call:
			if b, ok := n.Common().Value.(*ssa.Builtin); ok && b.Name() == "ssa:deferstack" {
				continue
			}
			if call != nil {
				return false
			}
			callee := n.Common().StaticCallee()
			if callee == nil || callee.String() != modPath+"/keyvalue/blob.NewBytes" || len(n.Common().Args) != 1 {
				return false
			}
			c, ok := n.Common().Args[0].(*ssa.Const)
			if !ok || c.Value != nil {
				return false
			}
			call = n
		case *ssa.MakeInterface:
			if mk != nil || call == nil || n.X != ssa.Value(call) {
				return false
			}
			mk = n
		case *ssa.Store:
			if _, ok := n.Addr.(*ssa.Alloc); !ok {
				return false
			}
			switch v := n.Val.(type) {
			case *ssa.MakeInterface:
				if v != mk {
					return false
				}
				storedMk = true
			case *ssa.Const:
				if v.Value != nil {
					return false
				}
				storedNil = true
			case *ssa.Call:
				if b, ok := v.Common().Value.(*ssa.Builtin); !ok || b.Name() != "ssa:deferstack" {
					return false
				}
			default:
				return false
			}
		case *ssa.Return:
			returned = true
		default:
			return false
		}
	}
	return call != nil && mk != nil && storedMk && storedNil && returned
}

// returnsOnlyNil: a function literal that does nothing but return nil/zero constants (decided syntactically on its SSA).
func returnsOnlyNil(fn *ssa.Function) bool {
	if fn.Blocks == nil {
		return false
	}
	for _, b := range fn.Blocks {
		for _, in := range b.Instrs {
			switch n := in.(type) {
			case *ssa.Alloc, *ssa.DebugRef, *ssa.RunDefers, *ssa.Jump, *ssa.UnOp:
			case *ssa.Store:
				if _, ok := n.Addr.(*ssa.Alloc); !ok {
					return false
				}
			case *ssa.Call:
				if b, ok := n.Common().Value.(*ssa.Builtin); !ok || b.Name() != "ssa:deferstack" {
					return false
				}
			case *ssa.Return:
				for _, r := range n.Results {
					if u, ok := r.(*ssa.UnOp); ok {
						_ = u
						continue
					}
					c, ok := r.(*ssa.Const)
					if !ok || (c.Value != nil) {
						return false
					}
				}
			default:
				return false
			}
		}
	}
	// every store to the result cells must store a nil constant or a parameter-independent zero
	for _, b := range fn.Blocks {
		for _, in := range b.Instrs {
			if st, ok := in.(*ssa.Store); ok {
				if a, ok := st.Addr.(*ssa.Alloc); ok && a.Comment == "" {
					c, ok := st.Val.(*ssa.Const)
					if !ok || c.Value != nil {
						// unnamed result cell receives a non-nil value
						if _, isParam := st.Val.(*ssa.Parameter); !isParam {
							return false
						}
						return false
					}
				}
			}
		}
	}
	return true
}

func (x *Exec) contractEnv(st *State, c *Contract, sig *types.Signature, all []Value) *Env {
	for i := range all {
		all[i] = x.fnTerm(st, all[i])
	}
	env := &Env{eng: x.eng, st: st, vars: map[string]tv{}, pkg: x.eng.typesPkg(c.Pkg)}
	if c.SpecPkg != "" {
		env.pkg = x.eng.typesPkg(c.SpecPkg)
	}
	i := 0
	if sig.Recv() != nil {
		if c.RecvName != "" {
			env.vars[c.RecvName] = tv{all[0], sig.Recv().Type()}
		}
		i = 1
	}
	if len(c.Params) != sig.Params().Len() {
		x.fail("contract %s: %d parameters declared, function has %d", c.Key, len(c.Params), sig.Params().Len())
	}
	for j, name := range c.Params {
		env.vars[name] = tv{all[i+j], sig.Params().At(j).Type()}
	}
	return env
}

func (x *Exec) bindResults(env *Env, c *Contract, sig *types.Signature, rets []Value) {
	if len(c.Results) != sig.Results().Len() {
		x.fail("contract %s: %d results declared, function has %d", c.Key, len(c.Results), sig.Results().Len())
	}
	for j, name := range c.Results {
		env.vars[name] = tv{rets[j], sig.Results().At(j).Type()}
	}
}

func (x *Exec) evalClause(env *Env, c *Contract, what string, e ast.Expr) (t *Term) {
	defer func() {
		if r := recover(); r != nil {
			if ee, ok := r.(evalError); ok {
				x.fail("contract %s, %s: %s", c.Key, what, ee.msg)
			}
			panic(r)
		}
	}()
	var facts []*Term
	env.facts = &facts
	t = env.evalBool(e)
	env.facts = nil
	env.st.assumeAll(facts)
	return t
}

func (x *Exec) evalLocs(env *Env, c *Contract, es []ast.Expr) (out []locRef) {
	defer func() {
		if r := recover(); r != nil {
			if ee, ok := r.(evalError); ok {
				x.fail("contract %s, modifies: %s", c.Key, ee.msg)
			}
			panic(r)
		}
	}()
	for _, e := range es {
		out = append(out, env.evalLoc(e)...)
	}
	return out
}

// applyContract replaces a call by the callee's contract.
func (x *Exec) applyContract(fr *Frame, st *State, c *Contract, sig *types.Signature, all []Value, site ssa.Instruction) []Value {
	switch {
	case c.Iface:
		x.note("assumed contract of an interface method (foreign implementations are not verified)", calleeShort(c.Key))
	case c.Assumed != "":
		x.note("assumed contract ("+c.Assumed+")", calleeShort(c.Key))
	default:
		if x.used != nil {
			x.used[c.Key] = true
		}
	}
	env := x.contractEnv(st, c, sig, all)
	ord := 0
	if site != nil {
		ord = x.ordinal(fr.fn, site, "call")
	}
	pos := token.NoPos
	if site != nil {
		pos = site.Pos()
	}
	for _, r := range c.Requires {
		g := x.evalClause(env, c, "requires "+r.Label, r.Expr)
		x.check(st, fmt.Sprintf("%spre.%s.%s@%d", fr.prefix, calleeShort(c.Key), r.Label, ord), g, pos)
	}
	// recursion: the callee's measure must decrease
	if c == x.c && c.Decreases != nil && x.entryDecr != nil {
		m := env.evalInt(c.Decreases)
		x.check(st, fmt.Sprintf("%sdecreases.rec@%d", fr.prefix, ord), And(Le(IntLit(0), m), Lt(m, x.entryDecr)), pos)
	}
	if c.MayPanic != "" && x.c.NoPanic {
		x.oblige(st, fmt.Sprintf("%snopanic.call.%s@%d", fr.prefix, calleeShort(c.Key), ord), False, pos)
	}
	pre := st.snapshot()
	preTop := st.heaptop
	locs := x.evalLocs(env, c, c.Modifies)
	x.havoc(st, locs)
	if !c.Pure {
		st.bumpTop()
	}
	x.flushTop(st)
	rets := make([]Value, sig.Results().Len())
	for j := 0; j < sig.Results().Len(); j++ {
		rets[j] = st.fresh(sig.Results().At(j).Type(), "ret|"+c.Name)
	}
	if os.Getenv("GOVC_DEBUG") != "" {
		fmt.Fprintf(os.Stderr, "applyContract %s determ=%v pure=%v\n", c.Key, c.Determ, c.Pure)
	}
	if c.Determ {
		// results (and the new world) are functions of the old world and the arguments
		w0 := worldOf(pre)
		argc := detArgsFor(c, sig, all)
		for j := 0; j < sig.Results().Len(); j++ {
			rt := sig.Results().At(j).Type()
			dv := detResult(c.Key, j, rt, w0, argc)
			st.assume(valEq(tv{rets[j], rt}, tv{dv, rt}))
		}
		if !c.Pure && !c.NoWorld {
			wa := st.arr("G|world", ArrayS(IntS, IntS))
			st.setArr("G|world", Store(wa, IntLit(0), App("det|"+calleeShort(c.Key)+"|world", IntS, append([]*Term{w0}, argc...)...)))
		}
	}
	env.old, env.oldTop = pre, preTop
	x.bindResults(env, c, sig, rets)
	pcBeforeEnsures := append([]*Term(nil), st.pc...)
	var keep []string
	restrict := false
	if x.c != nil && x.c.Opaque != nil {
		if k, ok := x.c.Opaque[c.Name]; ok {
			keep, restrict = k, true
		}
	}
	for _, en := range c.Ensures {
		if restrict {
			found := false
			for _, l := range keep {
				if l == en.Label {
					found = true
				}
			}
			if !found {
				continue
			}
		}
		if mentionsCallGhost(en.Expr) {
			continue // a clause about the callee's own calls (failed / called / result): checked in its body, not visible to callers
		}
		st.assume(x.evalClause(env, c, "ensures "+en.Label, en.Expr))
	}
	// opt-in audit (GOVC_CONSISTENT_CALLS=1): assuming a callee's postconditions must not close a reachable path - a
	// contract whose clauses contradict each other for some input would make everything after the call vacuous
	if os.Getenv("GOVC_CONSISTENT_CALLS") != "" && len(st.pc) > len(pcBeforeEnsures) && fr.fn == x.fn {
		x.obls = append(x.obls, &Obligation{Fn: x.key, Kind: fmt.Sprintf("%sconsistent.call.%s@%d", fr.prefix, calleeShort(c.Key), ord), Props: x.c.Props,
			PC0: pcBeforeEnsures, PC: append([]*Term(nil), st.pc...), Goal: False, PathID: x.pathID, Inputs: x.inputs})
	}
	return rets
}

// mentionsCallGhost: the expression uses failed(...), called(...) or result(...).
func mentionsCallGhost(e ast.Expr) bool {
	found := false
	ast.Inspect(e, func(n ast.Node) bool {
		if c, ok := n.(*ast.CallExpr); ok {
			if id, ok := c.Fun.(*ast.Ident); ok && (id.Name == "failed" || id.Name == "called" || id.Name == "result" || id.Name == "ncalls") {
				found = true
			}
		}
		return !found
	})
	return found
}

func (x *Exec) findIfaceContract(m *types.Func) *Contract {
	return x.findIfaceContractFor(m, nil)
}

// findIfaceContractFor finds the interface-method contract for method m, preferring the
// contract written on the static receiver type, then on the interface that declares m.
func (x *Exec) findIfaceContractFor(m *types.Func, static types.Type) *Contract {
	var best *Contract
	bestScore := 0
	for _, k := range sortedKeys(x.eng.cs.Funcs) {
		c := x.eng.cs.Funcs[k]
		if !c.Iface || c.Name != m.Name() {
			continue
		}
		it := x.eng.lookupType(c.Pkg, c.RecvType)
		if it == nil {
			continue
		}
		iface, ok := it.Underlying().(*types.Interface)
		if !ok {
			continue
		}
		has, explicit := false, false
		for i := 0; i < iface.NumMethods(); i++ {
			if iface.Method(i) == m {
				has = true
			}
		}
		for i := 0; i < iface.NumExplicitMethods(); i++ {
			if iface.ExplicitMethod(i) == m {
				explicit = true
			}
		}
		if !has {
			continue
		}
		score := 1
		if explicit {
			score = 2
		}
		if static != nil && types.Identical(canonType(static), canonType(it)) {
			score = 3
		}
		if score > bestScore {
			best, bestScore = c, score
		}
	}
	return best
}

func (x *Exec) doCall(fr *Frame, st *State, call *ssa.Call, cc *ssa.CallCommon, d *deferred, k cont) {
	var site ssa.Instruction
	if call != nil {
		site = call
	} else if d != nil {
		site = d.instr
	}
	var fnv Value
	var args []Value
	if d != nil {
		fnv, args = d.fn, d.args
	} else {
		fnv = x.val(fr, st, cc.Value)
		for _, a := range cc.Args {
			args = append(args, x.val(fr, st, a))
		}
	}
	sig := cc.Signature()
	if cc.IsInvoke() {
		recv, ok := fnv.(IfaceV)
		if !ok {
			x.fail("invoke on %T", fnv)
		}
		x.check(st, x.site(fr, site, "nilderef"), Neq(recv.Tag, IntLit(0)), site.Pos())
		if r, ok := x.invokeIntrinsic(fr, st, cc, recv, args, site); ok {
			k(st, r)
			return
		}
		// a known dynamic type: call the concrete method (by its contract, or inlined)
		tag := recv.Tag
		if !tag.IsInt() {
			if kv, ok := st.known[tag.Key()]; ok {
				tag = IntLit(kv)
			}
		}
		if tag.IsInt() {
			if x.invokeConcrete(fr, st, cc, IfaceV{tag, recv.Val}, args, site, k) {
				return
			}
		} else if cands := x.dispatchTypes(fr, cc); len(cands) > 0 {
			for _, t := range cands {
				st2, fr2 := st.clone(), fr.clone()
				st2.assume(Eq(recv.Tag, tagTerm(t)))
				if st2.dead || !x.feasible(st2) {
					continue
				}
				if !x.invokeConcrete(fr2, st2, cc, IfaceV{tagTerm(t), recv.Val}, args, site, k) {
					x.fail("dispatch: %s has no method %s", t, cc.Method.Name())
				}
			}
			for _, t := range cands {
				st.assume(Neq(recv.Tag, tagTerm(t)))
			}
			if st.dead || !x.feasible(st) {
				return
			}
		}
		c := x.findIfaceContractFor(cc.Method, cc.Value.Type())
		if c == nil {
			x.note("uncontracted interface call (results unconstrained, assumed not to panic, heap assumed unchanged)", cc.Method.FullName())
			k(st, x.freshResults(st, sig, cc.Method.Name()))
			return
		}
		msig := cc.Method.Type().(*types.Signature)
		full := types.NewSignatureType(types.NewVar(token.NoPos, nil, "self", cc.Value.Type()), nil, nil, msig.Params(), msig.Results(), msig.Variadic())
		k(st, x.applyContract(fr, st, c, full, append([]Value{recv}, args...), site))
		return
	}
	switch f := fnv.(type) {
	case *ssa.Builtin:
		if f.Name() == "append" {
			if sv, ok := args[0].(SliceV); ok {
				if tv2, ok := args[1].(SliceV); ok && tv2.Len.IsInt() && tv2.Len.Int.Int64() <= 4 {
					x.appendFork(fr, st, sv, tv2, k)
					return
				}
			}
		}
		k(st, x.builtin(fr, st, f, cc, args, site))
		return
	case ClosureV:
		x.callFunc(fr, st, f.Fn, f.Bind, args, site, k)
		return
	case *Term:
		if cv, ok := st.clos[f.Key()]; ok {
			x.callFunc(fr, st, cv.Fn, cv.Bind, args, site, k)
			return
		}
		x.check(st, x.site(fr, site, "nilderef"), Neq(f, IntLit(0)), site.Pos())
		if isNamed(types.Unalias(cc.Value.Type()), "context", "CancelFunc") || (f.Op == "app" && f.Name == "cancelfn") {
			x.callCancel(st, f)
			k(st, nil)
			return
		}
		x.trusted("function-typed parameters (e.g. getVolumeName) are called as pure, total functions of their arguments")
		frs := fnApply(sig, f, args)
		for j, r := range frs {
			st.assumeAll(typeFacts(sig.Results().At(j).Type(), r, st.heaptop))
		}
		k(st, frs)
		return
	}
	x.fail("call of %T", fnv)
}

// fnApply: the results of calling an unknown function value, as uninterpreted functions of (function, arguments).
func fnApply(sig *types.Signature, f *Term, args []Value) []Value {
	var argc []*Term
	argc = append(argc, f)
	for j := 0; j < sig.Params().Len() && j < len(args); j++ {
		argc = append(argc, toComps(sig.Params().At(j).Type(), args[j])...)
	}
	rets := make([]Value, sig.Results().Len())
	for j := range rets {
		rt := sig.Results().At(j).Type()
		cs := comps(rt)
		ts := make([]*Term, len(cs))
		for i, c := range cs {
			ts[i] = App(fmt.Sprintf("fnres|%d%s", j, c.suffix), c.sort, argc...)
		}
		rets[j], _ = fromComps(rt, ts)
	}
	return rets
}

// feasible: a quick solver check that the path condition is not plainly contradictory
// (used to prune dynamic-dispatch branches; "unknown" counts as feasible).
func (x *Exec) feasible(st *State) bool {
	o := &Obligation{Fn: x.key, Kind: "feasible", PC: coverPC(st.pc), Goal: False, Cover: true}
	script, _ := x.eng.buildScript(o, false)
	f, err := os.CreateTemp("", "govc-feas-*.smt2")
	if err != nil {
		return true
	}
	defer os.Remove(f.Name())
	f.WriteString(script)
	f.Close()
	status, _, _ := runSolver(context.Background(), solvers[0], f.Name(), 2)
	return status != "unsat"
}

// invokeConcrete calls method cc.Method on the concrete dynamic type with the given (literal) tag.
func (x *Exec) invokeConcrete(fr *Frame, st *State, cc *ssa.CallCommon, recv IfaceV, args []Value, site ssa.Instruction, k cont) bool {
	id := int(recv.Tag.Int.Int64())
	t := tags.typeOf(id)
	if t == nil {
		return false
	}
	if _, isPseudo := t.(*pseudoType); isPseudo {
		return false
	}
	sel := x.eng.prog.MethodSets.MethodSet(t).Lookup(cc.Method.Pkg(), cc.Method.Name())
	if sel == nil {
		return false
	}
	fn := x.eng.prog.MethodValue(sel)
	if fn == nil {
		return false
	}
	rv := x.unbox(st, recv, t)
	// promoted methods are reached through synthetic wrappers; call the wrapper's target when it has no body of its own
	x.callFunc(fr, st, fn, nil, append([]Value{rv}, args...), site, k)
	return true
}

// dispatchTypes: the concrete types this function's contract asks to split calls on, for the call's static interface type.
func (x *Exec) dispatchTypes(fr *Frame, cc *ssa.CallCommon) []types.Type {
	var c *Contract
	if fr.inl {
		c = x.eng.cs.Funcs[x.eng.fnKey[fr.fn]]
	}
	if c == nil || c.Dispatch == nil {
		c = x.c
	}
	if c == nil || c.Dispatch == nil {
		return nil
	}
	env := &Env{eng: x.eng, pkg: x.eng.typesPkg(c.Pkg), vars: map[string]tv{}}
	static := canonType(cc.Value.Type())
	var out []types.Type
	for in, ts := range c.Dispatch {
		ix, err := parser.ParseExpr(in)
		if err != nil {
			continue
		}
		it := env.resolveType(ix)
		if it == nil || !types.Identical(canonType(it), static) {
			continue
		}
		for _, tn := range ts {
			tx, err := parser.ParseExpr(tn)
			if err != nil {
				continue
			}
			if t := env.resolveType(tx); t != nil {
				out = append(out, t)
			}
		}
	}
	return out
}

func (x *Exec) freshResults(st *State, sig *types.Signature, hint string) []Value {
	rets := make([]Value, sig.Results().Len())
	for j := range rets {
		rets[j] = st.fresh(sig.Results().At(j).Type(), "ret|"+hint)
	}
	return rets
}

func (x *Exec) callFunc(fr *Frame, st *State, fn *ssa.Function, bind []Value, args []Value, site ssa.Instruction, k cont) {
	name := fn.String()
	if r, ok, handled := x.intrinsic(fr, st, fn, args, site, k); handled {
		if ok {
			k(st, r)
		}
		return
	}
	key := x.eng.fnKey[fn]
	c := x.eng.cs.Funcs[key]
	if c == nil && fn.Synthetic != "" && fn.Blocks != nil && (strings.HasPrefix(fn.Synthetic, "wrapper") || strings.HasPrefix(fn.Synthetic, "bound") || strings.HasPrefix(fn.Synthetic, "thunk")) {
		// compiler-generated wrapper (promoted method, method value): execute it, its target is called by contract
		x.inline(fr, st, fn, bind, args, k)
		return
	}
	if fn.Parent() != nil || (c != nil && c.Inline) {
		if c != nil && c.Inline {
			x.note("inlined", calleeShort(key))
		}
		x.inline(fr, st, fn, bind, args, k)
		return
	}
	if c != nil {
		k(st, x.applyContract(fr, st, c, fn.Signature, args, site))
		return
	}
	if fn.Blocks == nil || !strings.HasPrefix(name, modPath) && !strings.HasPrefix(name, "("+modPath) && !strings.HasPrefix(name, "(*"+modPath) {
		x.note("uncontracted external call (results unconstrained, assumed not to panic, heap assumed unchanged)", name)
	} else {
		// a repository function without a contract is executed in place: what it does is checked
		// against the caller's contract rather than assumed harmless
		x.note("inlined (no contract)", calleeShort(key))
		x.inline(fr, st, fn, bind, args, k)
		return
	}
	k(st, x.freshResults(st, fn.Signature, fn.Name()))
}

func (x *Exec) inline(fr *Frame, st *State, fn *ssa.Function, bind []Value, args []Value, k cont) {
	if fr.depth > 12 {
		x.fail("inlining too deep at %s", fn.Name())
	}
	if fn.Blocks == nil {
		x.fail("cannot inline %s: no body", fn.Name())
	}
	nf := &Frame{fn: fn, regs: map[ssa.Value]Value{}, bind: bind, depth: fr.depth + 1, inl: true}
	nf.prefix = fr.prefix
	if fn.Parent() != nil {
		nf.prefix = fr.prefix + strings.TrimPrefix(x.eng.fnKey[fn], x.eng.fnKey[fn.Parent()]) + "."
	} else {
		nf.prefix = fr.prefix + fn.Name() + "."
	}
	for i, p := range fn.Params {
		nf.regs[p] = args[i]
	}
	x.runBlock(nf, fn.Blocks[0], 0, st, k)
}

// ---- builtins ----

func (x *Exec) builtin(fr *Frame, st *State, b *ssa.Builtin, cc *ssa.CallCommon, args []Value, site ssa.Instruction) []Value {
	switch b.Name() {
	case "ssa:deferstack":
		return []Value{IntLit(0)}
	case "len":
		switch v := args[0].(type) {
		case SliceV:
			return []Value{v.Len}
		case *Term:
			if v.Sort.Kind == SString {
				return []Value{StrLen(v)}
			}
			// map length
			return []Value{App("maplen", IntS, v)}
		}
	case "cap":
		if v, ok := args[0].(SliceV); ok {
			return []Value{v.Cap}
		}
	case "copy":
		dst := args[0].(SliceV)
		var n *Term
		switch src := args[1].(type) {
		case SliceV:
			n = Min(dst.Len, src.Len)
			x.copyElems(st, dst, src, n)
		default:
			x.fail("copy from %T", args[1])
		}
		return []Value{n}
	case "append":
		s := args[0].(SliceV)
		t, ok := args[1].(SliceV)
		if !ok {
			x.fail("append of %T", args[1])
		}
		return []Value{x.appendSlices(st, s, t)}
	case "min", "max":
		a, b2 := args[0].(*Term), args[1].(*Term)
		if b.Name() == "min" {
			return []Value{Min(a, b2)}
		}
		return []Value{Max(a, b2)}
	case "delete":
		mt := cc.Args[0].Type().Underlying().(*types.Map)
		ks, _ := scalarSort(mt.Key())
		m := args[0].(*Term)
		dn := mapArrBase(mt) + "|dom"
		da := st.arr(dn, ArrayS(IntS, ArrayS(ks, BoolS)))
		st.setArr(dn, Store(da, m, Store(Select(da, m), args[1].(*Term), False)))
		return nil
	case "recover":
		return []Value{IfaceV{IntLit(0), IntLit(0)}}
	case "print", "println":
		return nil
	}
	x.fail("unsupported builtin %s", b.Name())
	return nil
}

// copyElems: dst[0:n] = src[0:n] as an array-level update (lambda encoding).
func (x *Exec) copyElems(st *State, dst, src SliceV, n *Term) {
	for _, c := range comps(dst.Elem) {
		name := elemArrName(dst.Elem, c.suffix)
		as := ArrayS(IntS, ArrayS(IntS, c.sort))
		a := st.arr(name, as)
		d0 := Select(a, dst.Ref)
		s0 := Select(a, src.Ref)
		i := Var(freshName("ci"), IntS)
		body := Ite(And(Le(dst.Off, i), Lt(i, Add(dst.Off, n))), Select(s0, Add(Sub(i, dst.Off), src.Off)), Select(d0, i))
		st.setArr(name, Store(a, dst.Ref, Lambda([]*Term{i}, body)))
	}
}

// appendFork: append(s, x...) with a short literal argument list, explored as two paths
// (room in the backing array / reallocation) so that no conditional array terms arise.
func (x *Exec) appendFork(fr *Frame, st *State, s, t SliceV, k cont) {
	n := int(t.Len.Int.Int64())
	newLen := Add(s.Len, t.Len)
	fits := Le(newLen, s.Cap)
	elems := make([][]*Term, n)
	for i := 0; i < n; i++ {
		elems[i] = toComps(s.Elem, readElem(st.heap, s.Elem, t.Ref, Add(t.Off, IntLit(int64(i)))))
	}
	// path 1: in place
	st1, fr1 := st.clone(), fr.clone()
	st1.assume(fits)
	if !st1.dead {
		for ci, c := range comps(s.Elem) {
			name := elemArrName(s.Elem, c.suffix)
			as := ArrayS(IntS, ArrayS(IntS, c.sort))
			a := st1.arr(name, as)
			inner := Select(a, s.Ref)
			for i := 0; i < n; i++ {
				inner = Store(inner, Add(Add(s.Off, s.Len), IntLit(int64(i))), elems[i][ci])
			}
			st1.setArr(name, Store(a, s.Ref, inner))
		}
		_ = fr1
		k(st1, []Value{SliceV{Ref: s.Ref, Off: s.Off, Len: newLen, Cap: s.Cap, Elem: s.Elem}})
	}
	// path 2: reallocation
	st.assume(Not(fits))
	if st.dead {
		return
	}
	fresh := st.alloc()
	newCap := Const(freshName("appendcap"), IntS)
	st.assume(And(Le(newLen, newCap), Le(newCap, BigLit(maxLen))))
	for ci, c := range comps(s.Elem) {
		name := elemArrName(s.Elem, c.suffix)
		as := ArrayS(IntS, ArrayS(IntS, c.sort))
		a := st.arr(name, as)
		s0 := Select(a, s.Ref)
		g := Const(freshName("grown"+c.suffix), ArrayS(IntS, c.sort))
		j := Var(freshName("aj"), IntS)
		q := Forall([]*Term{j}, Implies(And(Le(IntLit(0), j), Lt(j, s.Len)), Eq(Select(g, j), Select(s0, Add(s.Off, j)))))
		q.Pat = []*Term{Select(g, j)}
		st.assume(q)
		var inner *Term = g
		for i := 0; i < n; i++ {
			inner = Store(inner, Add(s.Len, IntLit(int64(i))), elems[i][ci])
		}
		st.setArr(name, Store(a, fresh, inner))
	}
	k(st, []Value{SliceV{Ref: fresh, Off: IntLit(0), Len: newLen, Cap: newCap, Elem: s.Elem}})
}

// appendSlices implements append(s, t...) including in-place growth within capacity.
// For a short literal-length argument (append(s, x)) the two cases are explored as separate paths with
// plain stores; otherwise the combined lambda encoding is used.
func (x *Exec) appendSlices(st *State, s, t SliceV) Value {
	newLen := Add(s.Len, t.Len)
	fits := Le(newLen, s.Cap)
	fresh := st.alloc()
	newCap := Const(freshName("appendcap"), IntS)
	st.assume(And(Le(newLen, newCap), Le(newCap, BigLit(maxLen))))
	for _, c := range comps(s.Elem) {
		name := elemArrName(s.Elem, c.suffix)
		as := ArrayS(IntS, ArrayS(IntS, c.sort))
		a := st.arr(name, as)
		s0 := Select(a, s.Ref)
		t0 := Select(a, t.Ref)
		var inPlace, grown *Term
		if t.Len.IsInt() && t.Len.Int.Int64() <= 4 {
			n := int(t.Len.Int.Int64())
			inPlace = s0
			// grown: a fresh array that agrees with s on [0, len) (quantified), then the new elements
			g := Const(freshName("grown"+c.suffix), ArrayS(IntS, c.sort))
			j := Var(freshName("aj"), IntS)
			q := Forall([]*Term{j}, Implies(And(Le(IntLit(0), j), Lt(j, s.Len)), Eq(Select(g, j), Select(s0, Add(s.Off, j)))))
			q.Pat = []*Term{Select(g, j)}
			st.assume(q)
			grown = g
			for k := 0; k < n; k++ {
				el := Select(t0, Add(t.Off, IntLit(int64(k))))
				inPlace = Store(inPlace, Add(Add(s.Off, s.Len), IntLit(int64(k))), el)
				grown = Store(grown, Add(s.Len, IntLit(int64(k))), el)
			}
		} else {
			i := Var(freshName("ai"), IntS)
			inPlace = Lambda([]*Term{i}, Ite(And(Le(Add(s.Off, s.Len), i), Lt(i, Add(s.Off, newLen))), Select(t0, Add(Sub(i, Add(s.Off, s.Len)), t.Off)), Select(s0, i)))
			j := Var(freshName("aj"), IntS)
			grown = Lambda([]*Term{j}, Ite(And(Le(IntLit(0), j), Lt(j, s.Len)), Select(s0, Add(s.Off, j)),
				Ite(And(Le(s.Len, j), Lt(j, newLen)), Select(t0, Add(Sub(j, s.Len), t.Off)), zeroTerm(c))))
		}
		upd := Store(Store(a, fresh, grown), s.Ref, Ite(fits, inPlace, s0))
		st.setArr(name, upd)
	}
	return SliceV{
		Ref:  Ite(fits, s.Ref, fresh),
		Off:  Ite(fits, s.Off, IntLit(0)),
		Len:  newLen,
		Cap:  Ite(fits, s.Cap, newCap),
		Elem: s.Elem,
	}
}

// ---- loops ----

func (x *Exec) localsEnv(fr *Frame, st *State, env *Env, body map[*ssa.BasicBlock]bool) {
	// expose named locals of the frame's function; prefer those referenced inside body
	type cand struct {
		a      *ssa.Alloc
		inBody bool
	}
	byName := map[string][]cand{}
	for _, b := range fr.fn.Blocks {
		for _, in := range b.Instrs {
			a, ok := in.(*ssa.Alloc)
			if !ok || a.Comment == "" {
				continue
			}
			if _, has := fr.regs[a]; !has {
				continue
			}
			used := false
			for _, r := range *a.Referrers() {
				if body == nil || body[r.Block()] {
					used = true
				}
			}
			byName[a.Comment] = append(byName[a.Comment], cand{a, used})
		}
	}
	for name, cs := range byName {
		if _, isParam := env.vars[name]; isParam && x.isParamName(fr.fn, name) {
			// locals shadow nothing: parameters in contracts mean entry values; expose the current value as name'
		}
		var pick *ssa.Alloc
		n := 0
		for _, c := range cs {
			if c.inBody {
				pick = c.a
				n++
			}
		}
		if n != 1 {
			if len(cs) == 1 {
				pick = cs[0].a
			} else {
				continue
			}
		}
		t := pick.Type().(*types.Pointer).Elem()
		v := st.load(fr.regs[pick], t)
		if x.isParamName(fr.fn, name) {
			env.vars["cur_"+name] = tv{v, t}
			if fr.inl {
				env.vars[name] = tv{v, t}
			}
			continue
		}
		env.vars[name] = tv{v, t}
	}
	// locals that were only renamed since the contracts were written keep their recorded names (locals.go)
	for oldName, newName := range x.eng.localAliases(fr.fn) {
		if _, has := env.vars[oldName]; has {
			continue
		}
		if v, ok := env.vars[newName]; ok {
			env.vars[oldName] = v
			x.note("renamed local", oldName+" is now "+newName+" in "+fr.fn.Name())
		}
	}
}

func (x *Exec) isParamName(fn *ssa.Function, name string) bool {
	for _, p := range fn.Params {
		if p.Name() == name {
			return true
		}
	}
	return false
}

// loopWrites computes the cells and heap arrays assigned anywhere in the loop body.
func (x *Exec) loopWrites(fr *Frame, st *State, body map[*ssa.BasicBlock]bool) (cells []*Cell, arrays map[string]*Sort) {
	cells, arrays, points := x.loopWrites2(fr, st, body)
	for _, p := range points {
		arrays[p.name] = p.sort
	}
	return cells, arrays
}

// localOnly: an Alloc whose address never escapes the instructions that read/write it directly
// (a plain local variable of a loop body or callback). Its cell is dead outside one iteration.
func localOnly(a *ssa.Alloc) bool {
	if a.Referrers() == nil {
		return false
	}
	for _, r := range *a.Referrers() {
		switch n := r.(type) {
		case *ssa.UnOp, *ssa.DebugRef:
		case *ssa.Store:
			if n.Val == ssa.Value(a) {
				return false
			}
		default:
			return false
		}
	}
	return true
}

// knownPtr: the address held by a captured variable or an escaping local of this frame.
func (x *Exec) knownPtr(fr *Frame, v ssa.Value) (*Term, bool) {
	switch a := v.(type) {
	case *ssa.FreeVar:
		for i, fv := range fr.fn.FreeVars {
			if fv == a && i < len(fr.bind) {
				if t, ok := fr.bind[i].(*Term); ok {
					return t, true
				}
			}
		}
	case *ssa.Alloc:
		if t, ok := fr.regs[a].(*Term); ok {
			return t, true
		}
	}
	return nil, false
}

// stableSliceRef: v is a load of a local slice variable that is not assigned inside body; returns its backing reference.
func (x *Exec) stableSliceRef(fr *Frame, st *State, v ssa.Value, body map[*ssa.BasicBlock]bool) (*Term, bool) {
	u, ok := v.(*ssa.UnOp)
	if !ok {
		return nil, false
	}
	al, ok := u.X.(*ssa.Alloc)
	if !ok || al.Referrers() == nil {
		return nil, false
	}
	for _, r := range *al.Referrers() {
		if s, ok := r.(*ssa.Store); ok && s.Addr == ssa.Value(al) && body[s.Block()] {
			return nil, false
		}
	}
	cp, ok := fr.regs[al].(CellPtr)
	if !ok || len(cp.Path) != 0 {
		return nil, false
	}
	sv, ok := st.cells[cp.C].(SliceV)
	if !ok || sv.Ref.Op == "ite" {
		return nil, false
	}
	return sv.Ref, true
}

func arraysOfType(prefix func(string) string, t types.Type, nested bool) map[string]*Sort {
	out := map[string]*Sort{}
	for _, c := range comps(t) {
		s := ArrayS(IntS, c.sort)
		if nested {
			s = ArrayS(IntS, ArrayS(IntS, c.sort))
		}
		out[prefix(c.suffix)] = s
	}
	return out
}

func arraysOfStruct(t types.Type) map[string]*Sort {
	out := map[string]*Sort{}
	owner := namedOf(t)
	s := structOf(t)
	for i := 0; i < s.NumFields(); i++ {
		f := s.Field(i)
		if isPlainStruct(f.Type()) {
			for k, v := range arraysOfStruct(f.Type()) {
				out[k] = v
			}
			continue
		}
		fn := f.Name()
		for k, v := range arraysOfType(func(sfx string) string { return fieldArrName(owner, fn, sfx) }, f.Type(), false) {
			out[k] = v
		}
	}
	return out
}

func (x *Exec) addFreshOnly(m map[string]*Sort) {
	if x.freshOnly == nil {
		x.freshOnly = map[string]*Sort{}
	}
	for k, v := range m {
		x.freshOnly[k] = v
	}
}

// growOnlySlice: v loads a local slice variable that, inside body, is only ever assigned the result of
// appending to itself, and whose value at loop entry is nil or a slice allocated by this function.
func (x *Exec) growOnlySlice(fr *Frame, st *State, v ssa.Value, body map[*ssa.BasicBlock]bool) (*Term, bool) {
	u, ok := v.(*ssa.UnOp)
	if !ok {
		return nil, false
	}
	if fv, isFree := u.X.(*ssa.FreeVar); isFree {
		// a captured slice variable: every store to it inside the callback must be an append to itself
		addr, ok := x.knownPtr(fr, fv)
		if !ok || fv.Referrers() == nil {
			return nil, false
		}
		for _, r := range *fv.Referrers() {
			s, ok := r.(*ssa.Store)
			if !ok || s.Addr != ssa.Value(fv) {
				continue
			}
			call, ok := s.Val.(*ssa.Call)
			if !ok {
				return nil, false
			}
			bi, ok := call.Common().Value.(*ssa.Builtin)
			if !ok || bi.Name() != "append" {
				return nil, false
			}
			src, ok := call.Common().Args[0].(*ssa.UnOp)
			if !ok || src.X != ssa.Value(fv) {
				return nil, false
			}
		}
		cur := readPtr(st.heap, fv.Type().(*types.Pointer).Elem(), addr)
		sv, ok := cur.(SliceV)
		if !ok {
			return nil, false
		}
		if sv.Ref.IsInt() && sv.Ref.Int.Sign() == 0 {
			return sv.Ref, true
		}
		if _, _, isAlloc := allocInfo(sv.Ref); isAlloc {
			return sv.Ref, true
		}
		return nil, false
	}
	al, ok := u.X.(*ssa.Alloc)
	if !ok || al.Referrers() == nil {
		return nil, false
	}
	for _, r := range *al.Referrers() {
		s, ok := r.(*ssa.Store)
		if !ok || s.Addr != ssa.Value(al) || !body[s.Block()] {
			continue
		}
		call, ok := s.Val.(*ssa.Call)
		if !ok {
			return nil, false
		}
		bi, ok := call.Common().Value.(*ssa.Builtin)
		if !ok || bi.Name() != "append" {
			return nil, false
		}
		src, ok := call.Common().Args[0].(*ssa.UnOp)
		if !ok || src.X != ssa.Value(al) {
			return nil, false
		}
	}
	var cur Value
	switch p := fr.regs[al].(type) {
	case CellPtr:
		if len(p.Path) != 0 {
			return nil, false
		}
		cur = st.cells[p.C]
	case *Term:
		cur = readPtr(st.heap, al.Type().(*types.Pointer).Elem(), p)
	default:
		return nil, false
	}
	sv, ok := cur.(SliceV)
	if !ok {
		return nil, false
	}
	if sv.Ref.IsInt() && sv.Ref.Int.Sign() == 0 {
		return sv.Ref, true
	}
	if _, _, isAlloc := allocInfo(sv.Ref); isAlloc {
		return sv.Ref, true
	}
	return nil, false
}

// loopWrites2 additionally reports single cells (points) written through known addresses.
func (x *Exec) loopWrites2(fr *Frame, st *State, body map[*ssa.BasicBlock]bool) (cells []*Cell, arrays map[string]*Sort, points []locRef) {
	arrays = map[string]*Sort{}
	seenCell := map[*Cell]bool{}
	addType := func(prefix func(string) string, t types.Type, nested bool) {
		for _, c := range comps(t) {
			s := ArrayS(IntS, c.sort)
			if nested {
				s = ArrayS(IntS, ArrayS(IntS, c.sort))
			}
			arrays[prefix(c.suffix)] = s
		}
	}
	var rootCell func(v ssa.Value) (*Cell, bool)
	rootCell = func(v ssa.Value) (*Cell, bool) {
		switch a := v.(type) {
		case *ssa.Alloc:
			if cp, ok := fr.regs[a].(CellPtr); ok {
				return cp.C, true
			}
		case *ssa.FieldAddr:
			return rootCell(a.X)
		}
		return nil, false
	}
	var addStruct func(t types.Type)
	addStruct = func(t types.Type) {
		owner := namedOf(t)
		s := structOf(t)
		for i := 0; i < s.NumFields(); i++ {
			f := s.Field(i)
			if isPlainStruct(f.Type()) {
				addStruct(f.Type())
				continue
			}
			fn := f.Name()
			addType(func(sfx string) string { return fieldArrName(owner, fn, sfx) }, f.Type(), false)
		}
	}
	for b := range body {
		for _, in := range b.Instrs {
			switch n := in.(type) {
			case *ssa.Store:
				if c, ok := rootCell(n.Addr); ok {
					if !seenCell[c] {
						seenCell[c] = true
						cells = append(cells, c)
					}
					continue
				}
				pt := n.Addr.Type().Underlying().(*types.Pointer).Elem()
				if al, ok := n.Addr.(*ssa.Alloc); ok && body[al.Block()] && (localOnly(al) || !al.Heap) {
					continue // a variable local to one iteration (non-escaping locals are cells, not heap arrays)
				}
				if addr, ok := x.knownPtr(fr, n.Addr); ok && !isPlainStruct(pt) {
					for _, c := range comps(pt) {
						points = append(points, locRef{ptrArrName(pt, c.suffix), ArrayS(IntS, c.sort), addr})
					}
					continue
				}
				switch a := n.Addr.(type) {
				case *ssa.FieldAddr:
					owner := namedOf(a.X.Type().Underlying().(*types.Pointer).Elem())
					f := structOf(owner).Field(a.Field)
					// a field of an object allocated inside the loop body (possibly through embedded
					// structs): only addresses allocated after loop entry change
					root := ssa.Value(a)
					for {
						fa, ok := root.(*ssa.FieldAddr)
						if !ok {
							break
						}
						root = fa.X
					}
					if al, ok := root.(*ssa.Alloc); ok && al.Heap && body[al.Block()] && !isPlainStruct(f.Type()) {
						fn := f.Name()
						x.addFreshOnly(arraysOfType(func(sfx string) string { return fieldArrName(owner, fn, sfx) }, f.Type(), false))
						continue
					}
					if al, ok := root.(*ssa.Alloc); ok && !al.Heap && body[al.Block()] {
						continue // a field of a struct variable local to one iteration
					}
					if isPlainStruct(f.Type()) {
						addStruct(f.Type())
					} else {
						fn := f.Name()
						addType(func(sfx string) string { return fieldArrName(owner, fn, sfx) }, f.Type(), false)
					}
				case *ssa.IndexAddr:
					// an array allocated inside the loop (e.g. a variadic argument pack): fresh addresses only
					if al, ok := a.X.(*ssa.Alloc); ok && body[al.Block()] {
						x.addFreshOnly(arraysOfType(func(sfx string) string { return elemArrName(pt, sfx) }, pt, true))
						continue
					}
					// a slice held in a local that the loop never reassigns: only that backing array changes
					if ref, ok := x.stableSliceRef(fr, st, a.X, body); ok {
						for _, c := range comps(pt) {
							points = append(points, locRef{elemArrName(pt, c.suffix), ArrayS(IntS, ArrayS(IntS, c.sort)), ref})
						}
						continue
					}
					addType(func(sfx string) string { return elemArrName(pt, sfx) }, pt, true)
				default:
					if isPlainStruct(pt) {
						addStruct(pt)
					} else {
						addType(func(sfx string) string { return ptrArrName(pt, sfx) }, pt, false)
					}
				}
			case *ssa.MapUpdate:
				mt := n.Map.Type().Underlying().(*types.Map)
				ks, _ := scalarSort(mt.Key())
				arrays[mapArrBase(mt)+"|dom"] = ArrayS(IntS, ArrayS(ks, BoolS))
				for _, c := range comps(mt.Elem()) {
					arrays[mapArrBase(mt)+"|val"+c.suffix] = ArrayS(IntS, ArrayS(ks, c.sort))
				}
			case *ssa.MakeSlice:
				// allocation inside the loop: only addresses above the loop-entry frontier are written
				el := n.Type().Underlying().(*types.Slice).Elem()
				x.addFreshOnly(arraysOfType(func(sfx string) string { return elemArrName(el, sfx) }, el, true))
			case *ssa.Alloc:
				if n.Heap && !localOnly(n) {
					t := n.Type().(*types.Pointer).Elem()
					switch {
					case isPlainStruct(t):
						x.addFreshOnly(arraysOfStruct(t))
					case isOpaqueStruct(t):
					default:
						if at, ok := types.Unalias(t).Underlying().(*types.Array); ok {
							x.addFreshOnly(arraysOfType(func(sfx string) string { return elemArrName(at.Elem(), sfx) }, at.Elem(), true))
						} else {
							x.addFreshOnly(arraysOfType(func(sfx string) string { return ptrArrName(t, sfx) }, t, false))
						}
					}
				}
			case *ssa.MakeInterface:
				t := n.X.Type()
				if !types.IsInterface(t) && !payloadIsValue(t) {
					if isPlainStruct(t) {
						x.addFreshOnly(arraysOfStruct(t))
					} else if !isOpaqueStruct(t) {
						x.addFreshOnly(arraysOfType(func(sfx string) string { return ptrArrName(t, sfx) }, t, false))
					}
				}
			case ssa.CallInstruction:
				cc := n.Common()
				if bi, ok := cc.Value.(*ssa.Builtin); ok {
					if bi.Name() == "append" || bi.Name() == "copy" {
						el := cc.Args[0].Type().Underlying().(*types.Slice).Elem()
						if bi.Name() == "append" {
							// growing a slice that was nil (or freshly made here) at loop entry only writes
							// backing arrays allocated after loop entry (or that one fresh array)
							if ref, ok := x.growOnlySlice(fr, st, cc.Args[0], body); ok {
								for _, c := range comps(el) {
									nm := elemArrName(el, c.suffix)
									srt := ArrayS(IntS, ArrayS(IntS, c.sort))
									if x.freshOnly == nil {
										x.freshOnly = map[string]*Sort{}
									}
									x.freshOnly[nm] = srt
									if !(ref.IsInt() && ref.Int.Sign() == 0) {
										points = append(points, locRef{nm, srt, ref})
									}
								}
								continue
							}
						}
						addType(func(sfx string) string { return elemArrName(el, sfx) }, el, true)
					}
					continue
				}
				// contracted callee: its modifies, array-wide (by name)
				var c *Contract
				if cc.IsInvoke() {
					c = x.findIfaceContract(cc.Method)
				} else if f := cc.StaticCallee(); f != nil {
					c = x.eng.cs.Funcs[x.eng.fnKey[f]]
					if f.Parent() != nil || (c != nil && c.Inline) {
						// inlined body: approximate by scanning it as well
						sub := map[*ssa.BasicBlock]bool{}
						for _, bb := range f.Blocks {
							sub[bb] = true
						}
						nf := &Frame{fn: f, regs: map[ssa.Value]Value{}}
						if mc, ok := cc.Value.(*ssa.MakeClosure); ok {
							for _, b := range mc.Bindings {
								if v, has := fr.regs[b]; has {
									nf.bind = append(nf.bind, v)
								} else {
									nf.bind = append(nf.bind, nil)
								}
							}
						}
						_, arr2 := x.loopWrites(nf, st, sub)
						for k, v := range arr2 {
							arrays[k] = v
						}
						c = nil
					}
					switch f.String() {
					case "(*sync.Mutex).Lock", "(*sync.Mutex).Unlock":
						arrays["G|held"] = ArrayS(IntS, BoolS)
					}
				}
				if c != nil && len(c.Modifies) > 0 {
					for name, s := range x.staticModifies(c) {
						arrays[name] = s
					}
				}
			}
		}
	}
	if srt, ok := arrays["G|world"]; ok {
		// the world token is a single cell
		delete(arrays, "G|world")
		points = append(points, locRef{"G|world", srt, IntLit(0)})
	}
	return cells, arrays, points
}

// staticModifies over-approximates a contract's modifies clause by whole arrays.
func (x *Exec) staticModifies(c *Contract) map[string]*Sort {
	out := map[string]*Sort{}
	fn := x.eng.funcs[c.Key]
	var sig *types.Signature
	if fn != nil {
		sig = fn.Signature
	}
	if sig == nil {
		return out
	}
	st := newState()
	var all []Value
	if sig.Recv() != nil {
		all = append(all, st.fresh(sig.Recv().Type(), "r"))
	}
	for i := 0; i < sig.Params().Len(); i++ {
		all = append(all, st.fresh(sig.Params().At(i).Type(), "p"))
	}
	env := x.contractEnv(st, c, sig, all)
	for _, l := range x.evalLocs(env, c, c.Modifies) {
		out[l.name] = l.sort
	}
	return out
}

func (x *Exec) loopRule(fr *Frame, hdr *ssa.BasicBlock, ord int, back bool, st *State, k cont) {
	var spec *LoopSpec
	var c *Contract
	if fr.inl {
		c = x.eng.cs.Funcs[x.eng.fnKey[fr.fn]]
	} else {
		c = x.c
	}
	if c != nil {
		spec = c.Loops[ord]
	}
	pos := token.NoPos
	if len(hdr.Instrs) > 0 {
		pos = hdr.Instrs[0].Pos()
	}
	if spec == nil || (len(spec.Inv) == 0 && spec.Unroll == 0) {
		x.oblige(st, fmt.Sprintf("%sinv.%d.missing", fr.prefix, ord), False, pos)
		return
	}
	body := x.loops(fr.fn).body[hdr]
	if spec.Unroll > 0 {
		// bounded stand-in: unroll up to k iterations, then cut the path
		cnt := 0
		for _, lf := range fr.loops {
			if lf.hdr == hdr {
				cnt++
			}
		}
		if cnt >= spec.Unroll {
			x.note("bounded", fmt.Sprintf("%s loop %d unrolled %d times (paths needing more iterations are NOT covered)", fr.fn.Name(), ord, spec.Unroll))
			return
		}
		fr.loops = append(fr.loops, loopFrame{hdr: hdr})
		x.runBlock(fr, hdr, 0, st, k)
		return
	}
	// map iterators advanced inside this loop
	var iters []MapIterV
	for b := range body {
		for _, in := range b.Instrs {
			if nx, ok := in.(*ssa.Next); ok {
				if it, ok := fr.regs[nx.Iter].(MapIterV); ok {
					iters = append(iters, it)
				}
			}
		}
	}
	mkEnv := func() *Env {
		env := &Env{eng: x.eng, st: st, vars: map[string]tv{}, pkg: fr.fn.Pkg.Pkg, old: heapSnap{}, oldTop: st.top0}
		if !fr.inl {
			for n, v := range x.params {
				env.vars[n] = v
			}
		}
		x.localsEnv(fr, st, env, body)
		if len(iters) == 1 {
			env.vars["visited"] = tv{setV{Dom: st.ghostV[iters[0].Key].(*Term), KeyT: iters[0].MT.Key()}, nil}
		}
		return env
	}
	evalInv := func(env *Env, cl Clause) *Term {
		return x.evalClause(env, c, fmt.Sprintf("loop %d invariant %s", ord, cl.Label), cl.Expr)
	}
	if back {
		env := mkEnv()
		for _, cl := range spec.Inv {
			x.check(st, fmt.Sprintf("%sinv.%d.preserve.%s", fr.prefix, ord, cl.Label), evalInv(env, cl), pos)
		}
		for i := len(fr.loops) - 1; i >= 0; i-- {
			if fr.loops[i].hdr == hdr {
				lf := fr.loops[i]
				for _, name := range sortedKeys(lf.modHead) {
					head := lf.modHead[name]
					cur := st.heap[name]
					if cur == nil || cur == head {
						continue
					}
					srt := arrSorts[name]
					var goal *Term
					if name == "G|world" {
						continue
					} else if srt != nil && srt.Kind == SArray && srt.Idx.Kind == SInt {
						a := Const(freshName("loopframeaddr"), IntS)
						pre := []*Term{Le(IntLit(1), a), Le(a, lf.modTop)}
						for _, al := range lf.modAllowed[name] {
							pre = append(pre, Neq(a, al))
						}
						goal = Implies(And(pre...), Eq(Select(cur, a), Select(head, a)))
					} else {
						goal = Eq(cur, head)
					}
					x.check(st, fmt.Sprintf("%sloopframe.%d.%s", fr.prefix, ord, shortArr(name)), goal, pos)
				}
				break
			}
		}
		if spec.Decr != nil {
			var prev *Term
			for i := len(fr.loops) - 1; i >= 0; i-- {
				if fr.loops[i].hdr == hdr {
					prev = fr.loops[i].decr
					break
				}
			}
			if prev != nil {
				m := env.evalInt(spec.Decr)
				x.check(st, fmt.Sprintf("%sdecreases.%d", fr.prefix, ord), And(Le(IntLit(0), prev), Lt(m, prev)), pos)
			}
		}
		return // path ends at the back edge
	}
	env := mkEnv()
	for _, cl := range spec.Inv {
		x.check(st, fmt.Sprintf("%sinv.%d.entry.%s", fr.prefix, ord, cl.Label), evalInv(env, cl), pos)
	}
	// havoc everything the body may assign
	x.freshOnly = nil
	cells, arrays, points := x.loopWrites2(fr, st, body)
	for _, cell := range cells {
		st.cells[cell] = st.fresh(cell.T, "loop|"+cell.name)
	}
	// the failed(callee) flags of `propagates` clauses are arbitrary at the loop head; invariants say what is known
	if x.c != nil && fr.fn == x.fn {
		x.havocTracked(st)
	}
	// a loop-level modifies clause narrows the whole-array havoc caused by calls in the body to the listed
	// cells; that the body stays inside it is checked at the back edge (loopframe obligations)
	var modHead map[string]*Term
	var modAllowed map[string][]*Term
	if len(spec.Modifies) > 0 {
		menv := mkEnv()
		modAllowed = map[string][]*Term{}
		for _, l := range x.evalLocs(menv, c, spec.Modifies) {
			if l.addr == nil {
				continue
			}
			if _, whole := arrays[l.name]; whole {
				modAllowed[l.name] = append(modAllowed[l.name], l.addr)
				points = append(points, l)
			}
		}
		for name := range modAllowed {
			delete(arrays, name)
		}
		// every other heap array the body may write is written at addresses allocated after loop entry only
		// (checked at the back edge with an empty allowed set)
		for name, srt := range arrays {
			if srt.Kind == SArray && srt.Idx.Kind == SInt && name != "G|world" && !strings.HasPrefix(name, "S|") {
				x.addFreshOnly(map[string]*Sort{name: srt})
				delete(arrays, name)
				modAllowed[name] = nil
			}
		}
	}
	x.havoc(st, points)
	// arrays only written at addresses allocated after loop entry: havoc with a frame for older addresses
	topAtEntry := st.heaptop
	for _, nm := range sortedKeys(x.freshOnly) {
		if _, whole := arrays[nm]; whole {
			continue
		}
		srt := x.freshOnly[nm]
		old := st.arr(nm, srt)
		registerArrSort(nm, srt)
		nw := Const(freshName(nm), srt)
		x.pendingTop = append(x.pendingTop, nw.Name)
		a := Var(freshName("fa"), IntS)
		q := Forall([]*Term{a}, Implies(Le(a, topAtEntry), Eq(Select(nw, a), Select(old, a))))
		q.Pat = []*Term{Select(nw, a)}
		st.assume(q)
		st.heap[nm] = nw
		points = append(points, locRef{nm, srt, nil})
	}
	names := make([]string, 0, len(arrays))
	for n := range arrays {
		names = append(names, n)
	}
	sort.Strings(names)
	for _, n := range names {
		st.heap[n] = Const(freshName(n), arrays[n])
		registerArrSort(n, arrays[n])
		x.pendingTop = append(x.pendingTop, st.heap[n].Name)
	}
	if modAllowed != nil {
		modHead = map[string]*Term{}
		for name := range modAllowed {
			modHead[name] = st.heap[name]
		}
	}
	if len(names) > 0 || len(points) > 0 {
		st.bumpTop()
	}
	x.flushTop(st)
	for _, it := range iters {
		ks, _ := scalarSort(it.MT.Key())
		V := Const(freshName("visited"), ArrayS(ks, BoolS))
		dom := Select(st.arr(mapArrBase(it.MT)+"|dom", ArrayS(IntS, ArrayS(ks, BoolS))), it.Addr)
		q := Var(freshName("q"), ks)
		st.assume(Forall([]*Term{q}, Implies(Select(V, q), Select(dom, q))))
		st.ghostV[it.Key] = V
	}
	env = mkEnv()
	for _, cl := range spec.Inv {
		st.assume(evalInv(env, cl))
	}
	lf := loopFrame{hdr: hdr, modHead: modHead, modAllowed: modAllowed, modTop: topAtEntry}
	if spec.Decr != nil {
		lf.decr = env.evalInt(spec.Decr)
	}
	fr.loops = append(fr.loops, lf)
	x.runBlock(fr, hdr, 0, st, k)
}
