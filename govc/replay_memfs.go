package main

// Replay adapter for the namespace operations of the key-value file system over the in-memory store
// (keyvalue.(*FS).{Mkdir, MkdirAll, Remove, Rename, OpenFile, Stat, Chmod, Chtimes}).
//
// A failed `post.<label>` obligation of one of these functions is replayed by compiling that ensures clause to Go -
// mechanically: the contract's spec macros are expanded from their definitions in the contract files, `old(e)` is e
// over a snapshot of the record map taken before the call, `ms(fs).records` is the real sync.Map of the real mem
// store, quantifiers over the map's domain range over its real keys - and evaluating it on the real function for
// every combination of a small catalogue of file-system states (built with the real operations) and arguments
// (small-scope search; the solver's model over the ghost record map is not decoded). The first combination for which
// the clause is false is the failing input; the generated test, injected into package mem with `go test -overlay`,
// prints it. Hand-written in the generated test: the catalogue, the snapshot, and the primitives listed in
// memfsRuntime (map look-up, error accessors, the constants isMem = true / world unchanged). A clause that uses a
// construct outside this translation (fresh(), tracked calls, existentials over all strings) makes the test fail to
// compile: not-replayable, reported as such.

import (
	"bytes"
	"fmt"
	"go/ast"
	"go/printer"
	"go/token"
	"go/types"
	"strings"
)

var memfsOps = map[string]string{ // function name -> how the generated test calls it and which variables the clause sees
	"Mkdir":    "name,perm",
	"MkdirAll": "path,perm",
	"Remove":   "name",
	"Rename":   "oldname,newname",
	"OpenFile": "name,flag,perm",
	"Stat":     "name",
	"Chmod":    "name,mode",
	"Chtimes":  "name,atime,mtime",
}

func init() {
	replayAdapters = append(replayAdapters, replayAdapter{
		match: func(key string) bool {
			for _, p := range []string{"github.com/hack-pad/hackpadfs/keyvalue.(*FS).", "github.com/hack-pad/hackpadfs/mem.(*FS)."} {
				if strings.HasPrefix(key, p) {
					_, ok := memfsOps[strings.TrimPrefix(key, p)]
					return ok
				}
			}
			return false
		},
		run:    replayMemFS,
		search: true,
	})
}

type memfsTr struct {
	e     *Engine
	pkg   string // package whose scope macros are resolved in
	state string // "post" or "pre"
	subst map[string]memfsArg
	depth int
	bad   string
	exp   map[string]bool // unexported package-level names of package keyvalue the clause reads (exported by a shim)
}

// memfsArg: a macro argument, translated lazily in the environment of the macro's caller but under the state that is
// current where the parameter is used (old(...) inside a macro body reaches the arguments too).
type memfsArg struct {
	expr ast.Expr
	env  *memfsTr
}

func (t *memfsTr) fail(format string, a ...interface{}) string {
	if t.bad == "" {
		t.bad = fmt.Sprintf(format, a...)
	}
	return "g_untranslatable()"
}

func gExprString(x ast.Expr) string {
	var b bytes.Buffer
	_ = printer.Fprint(&b, token.NewFileSet(), x)
	return b.String()
}

// isRecordsMap: the expression `ms(<fs>).records` (the ghost map of the in-memory store).
func isRecordsMap(x ast.Expr) bool {
	s, ok := x.(*ast.SelectorExpr)
	if !ok || s.Sel.Name != "records" {
		return false
	}
	c, ok := s.X.(*ast.CallExpr)
	return ok && funName(c.Fun) == "ms"
}

var memfsPure = map[string]bool{"VP": true, "ValidPath": true, "pdir": true, "pbase": true, "pjoin": true, "pclean": true, "hasPrefix": true, "hasSuffix": true,
	"contains": true, "trimPrefix": true, "trimSuffix": true, "implies": true, "iff": true, "ite": true}

var memfsErrFns = map[string]bool{"errIs": true, "isPathError": true, "isLinkError": true, "pathOf": true, "opOf": true, "oldOf": true, "newOf": true, "innerErr": true}

func (t *memfsTr) tr(x ast.Expr) string {
	if t.depth > 60 {
		return t.fail("macro expansion too deep")
	}
	switch n := x.(type) {
	case *ast.ParenExpr:
		return "(" + t.tr(n.X) + ")"
	case *ast.BasicLit:
		return n.Value
	case *ast.Ident:
		if a, ok := t.subst[n.Name]; ok {
			if a.env == nil {
				return n.Name // a quantified variable
			}
			sub := &memfsTr{e: t.e, pkg: a.env.pkg, state: t.state, subst: a.env.subst, depth: t.depth + 1, exp: t.exp}
			s := sub.tr(a.expr)
			if sub.bad != "" && t.bad == "" {
				t.bad = sub.bad
			}
			return "(" + s + ")"
		}
		switch n.Name {
		case "true", "false", "nil":
			return n.Name
		}
		if strings.HasSuffix(t.pkg, "/keyvalue") && t.exp != nil {
			if p := t.e.typesPkg(t.pkg); p != nil {
				if obj := p.Scope().Lookup(n.Name); obj != nil && !obj.Exported() {
					switch obj.(type) {
					case *types.Var, *types.Const:
						t.exp[n.Name] = true
						return "keyvalue.Govc_" + n.Name
					}
				}
			}
		}
		return n.Name
	case *ast.UnaryExpr:
		return n.Op.String() + t.tr(n.X)
	case *ast.BinaryExpr:
		return "(" + t.tr(n.X) + " " + n.Op.String() + " " + t.tr(n.Y) + ")"
	case *ast.SelectorExpr:
		if id, ok := n.X.(*ast.Ident); ok {
			if _, isSubst := t.subst[id.Name]; !isSubst {
				switch id.Name {
				case "mem":
					return n.Sel.Name // the generated test lives in package mem
				case "hackpadfs", "io", "keyvalue", "blob":
					return id.Name + "." + n.Sel.Name
				}
			}
		}
		return t.tr(n.X) + "." + n.Sel.Name
	case *ast.TypeAssertExpr:
		return t.tr(n.X) + ".(" + t.tr(n.Type) + ")"
	case *ast.StarExpr:
		return "*" + t.tr(n.X)
	case *ast.IndexExpr:
		if sel, ok := n.X.(*ast.SelectorExpr); ok && sel.Sel.Name == "records" {
			return "g_idx(" + t.tr(n.X) + ", " + t.tr(n.Index) + ")"
		}
		return t.tr(n.X) + "[" + t.tr(n.Index) + "]"
	case *ast.CallExpr:
		name := funName(n.Fun)
		args := func() []string {
			var out []string
			for _, a := range n.Args {
				out = append(out, t.tr(a))
			}
			return out
		}
		switch {
		case name == "old" && len(n.Args) == 1:
			saved := t.state
			t.state = "pre"
			s := t.tr(n.Args[0])
			t.state = saved
			return s
		case name == "in" && len(n.Args) == 2:
			if d, ok := n.Args[1].(*ast.CallExpr); ok && funName(d.Fun) == "dom" && len(d.Args) == 1 {
				return "g_in(" + t.tr(d.Args[0]) + ", " + t.tr(n.Args[0]) + ")"
			}
			return t.fail("in() over something else than the domain of a map")
		case (name == "forall" || name == "exists") && len(n.Args) == 3:
			v, ok := n.Args[0].(*ast.Ident)
			if !ok {
				return t.fail("quantifier variable")
			}
			var dom string
			if d, ok := n.Args[1].(*ast.CallExpr); ok && funName(d.Fun) == "dom" && len(d.Args) == 1 {
				dom = "g_keys(" + t.tr(d.Args[0]) + ")" // exact: the keys of the real map
			} else if id, ok := n.Args[1].(*ast.Ident); ok && id.Name == "string" && name == "forall" {
				dom = "g_universe" // a finite set of strings: a universal statement that fails on it fails
			} else {
				return t.fail("%s over %s", name, gExprString(n.Args[1]))
			}
			inner := &memfsTr{e: t.e, pkg: t.pkg, state: t.state, subst: map[string]memfsArg{}, depth: t.depth + 1, exp: t.exp}
			for k, a := range t.subst {
				inner.subst[k] = a
			}
			inner.subst[v.Name] = memfsArg{} // bound here
			body := inner.tr(n.Args[2])
			if inner.bad != "" && t.bad == "" {
				t.bad = inner.bad
			}
			return fmt.Sprintf("g_%s(%s, func(%s string) bool { return %s })", name, dom, v.Name, body)
		case name == "isType" && len(n.Args) == 2:
			return "g_isType[" + t.tr(n.Args[1]) + "](" + t.tr(n.Args[0]) + ")"
		case name == "ms" || name == "keyvalue.ms":
			return "g_st" + t.state // the in-memory store behind fs, as it was (pre) or is (post)
		case name == "isMem" || name == "keyvalue.isMem":
			return "true"
		case name == "isSerial":
			return "false"
		case name == "fsOK" || name == "fsInv" || name == "memOK" || name == "keyvalue.fsOK":
			return "true"
		case name == "world":
			return "0" // the in-memory world has no foreign state: world() == old(world())
		case memfsPure[name]:
			return "govc_" + name + "(" + strings.Join(args(), ", ") + ")"
		case memfsErrFns[name]:
			return "g_" + name + "(" + strings.Join(args(), ", ") + ")"
		}
		var pkg = t.e.typesPkg(t.pkg)
		if m := t.e.lookupMacro(name, pkg); m != nil {
			if len(m.Params) != len(n.Args) {
				return t.fail("macro %s arity", name)
			}
			// expand: arguments are translated in the current context, the body in the macro's own package
			sub := &memfsTr{e: t.e, pkg: m.Pkg, state: t.state, subst: map[string]memfsArg{}, depth: t.depth + 1, exp: t.exp}
			for i, p := range m.Params {
				sub.subst[p] = memfsArg{expr: n.Args[i], env: t}
			}
			s := sub.tr(m.Body)
			if sub.bad != "" && t.bad == "" {
				t.bad = sub.bad
			}
			return "(" + s + ")"
		}
		// a conversion such as FileRecord(x) or hackpadfs.FileMode(x), or an unknown function
		if len(n.Args) == 1 {
			if _, isSel := n.Fun.(*ast.SelectorExpr); isSel {
				return t.tr(n.Fun) + "(" + args()[0] + ")"
			}
		}
		return t.fail("no translation for %s(...)", name)
	}
	return t.fail("no translation for %T", x)
}

const memfsRuntime = `
type gState map[string]keyvalue.FileRecord

type gStore struct{ records gState }

var g_stpre, g_stpost gStore
var g_universe []string

func g_snap(s *store) gState {
	out := gState{}
	s.records.Range(func(k, v interface{}) bool { out[k.(string)] = v.(keyvalue.FileRecord); return true })
	return out
}
func g_in(s gState, k string) bool { _, ok := s[k]; return ok }
func g_idx(s gState, k string) keyvalue.FileRecord { return s[k] }
func g_keys(s gState) []string {
	var ks []string
	for k := range s {
		ks = append(ks, k)
	}
	sort.Strings(ks)
	return ks
}
func g_forall(dom []string, f func(string) bool) bool {
	for _, k := range dom {
		if !f(k) {
			return false
		}
	}
	return true
}
func g_exists(dom []string, f func(string) bool) bool {
	for _, k := range dom {
		if f(k) {
			return true
		}
	}
	return false
}
func g_isType[T any](x interface{}) bool { _, ok := x.(T); return ok }
func g_untranslatable() bool            { panic("untranslatable") }
func g_errIs(e error, target error) bool { return e != nil && errors.Is(e, target) }
func g_isPathError(e error) bool         { _, ok := e.(*hackpadfs.PathError); return ok }
func g_isLinkError(e error) bool         { _, ok := e.(*hackpadfs.LinkError); return ok }
func g_pathOf(e error) string {
	if pe, ok := e.(*hackpadfs.PathError); ok {
		return pe.Path
	}
	return "\x00no-path"
}
func g_opOf(e error) string {
	switch x := e.(type) {
	case *hackpadfs.PathError:
		return x.Op
	case *hackpadfs.LinkError:
		return x.Op
	}
	return "\x00no-op"
}
func g_oldOf(e error) string {
	if le, ok := e.(*hackpadfs.LinkError); ok {
		return le.Old
	}
	return "\x00no-old"
}
func g_newOf(e error) string {
	if le, ok := e.(*hackpadfs.LinkError); ok {
		return le.New
	}
	return "\x00no-new"
}
func g_innerErr(e error) error {
	switch x := e.(type) {
	case *hackpadfs.PathError:
		return x.Err
	case *hackpadfs.LinkError:
		return x.Err
	}
	return nil
}

// the catalogue of states: each is built on a fresh in-memory file system with the real operations
var g_states = [][]string{
	{},
	{"d a"}, {"f a"},
	{"d a", "f a/b"}, {"d a", "d a/b"}, {"d a", "d b"}, {"d a", "f b"}, {"f a", "f b"},
	{"d a", "d a/b", "f a/b/c"}, {"d a", "f a/b", "d b"}, {"d a", "d a/b", "d ab"}, {"d a", "f a/c", "f ab"},
}
var g_names = []string{".", "a", "b", "a/b", "a/c", "b/a", "a/b/c", "a/b/d", "ab", "c", "c/d", "", "/a", "a/", "../a", "a//b", "./a", "a/./b", "a/../b", "\xff"}

func g_build(spec []string) (*FS, *store) {
	st := newStore()
	kv, err := keyvalue.NewFS(st)
	if err != nil {
		panic(err)
	}
	fs := &FS{kv}
	for _, s := range spec {
		switch s[0] {
		case 'd':
			if err := fs.Mkdir(s[2:], 0755); err != nil {
				panic(err)
			}
		case 'f':
			f, err := fs.OpenFile(s[2:], hackpadfs.FlagReadWrite|hackpadfs.FlagCreate, 0644)
			if err != nil {
				panic(err)
			}
			_, _ = hackpadfs.WriteFile(f, []byte("data"))
			_ = f.Close()
		}
	}
	return fs, st
}
`

func replayMemFS(e *Engine, fr *FuncResult, r oblResult, outDir string) (string, string, string) {
	c := e.cs.Funcs[fr.Key]
	kind := r.o.Kind
	if !strings.HasPrefix(kind, "post.") {
		return "not-replayable", "only postconditions of the namespace operations are replayed (" + kind + ")", ""
	}
	label := strings.TrimPrefix(kind, "post.")
	var clause *Clause
	for i := range c.Ensures {
		if c.Ensures[i].Label == label {
			clause = &c.Ensures[i]
		}
	}
	if clause == nil {
		return "not-replayable", "no ensures clause " + label, ""
	}
	tr := &memfsTr{e: e, pkg: c.Pkg, state: "post", subst: map[string]memfsArg{}, exp: map[string]bool{}}
	goClause := tr.tr(clause.Expr)
	if tr.bad != "" {
		return "not-replayable", "clause " + label + " is outside the replay translation: " + tr.bad, ""
	}
	op := c.Name
	recv := "fs.kv." // the key-value file system behind the in-memory one
	if strings.Contains(fr.Key, "/mem.(*FS).") {
		recv = "fs." // the delegating method of mem.FS itself
	}
	// the variables the clause may mention: fs, parameters, results
	var decl, call, loops, show string
	closeLoops := ""
	switch memfsOps[op] {
	case "name,perm", "path,perm", "name,mode":
		ps := strings.Split(memfsOps[op], ",")
		loops = fmt.Sprintf("for _, %s := range g_names {\nfor _, %s := range []hackpadfs.FileMode{0, 0644, 0755, 0777, hackpadfs.ModeSticky | 0700, hackpadfs.ModeDir | 0711} {\n", ps[0], ps[1])
		closeLoops = "}\n}\n"
		call = fmt.Sprintf("%s := %s%s(%s, %s)", c.Results[0], recv, op, ps[0], ps[1])
		show = fmt.Sprintf(`fmt.Sprintf("%s(%%q, %%v) = %%v", %s, %s, %s)`, op, ps[0], ps[1], c.Results[0])
	case "name":
		loops = "for _, name := range g_names {\n"
		closeLoops = "}\n"
		if op == "Stat" {
			call = fmt.Sprintf("%s, %s := %sStat(name)", c.Results[0], c.Results[1], recv)
			show = fmt.Sprintf(`fmt.Sprintf("Stat(%%q) = %%v, %%v", name, %s, %s)`, c.Results[0], c.Results[1])
		} else {
			call = fmt.Sprintf("%s := %s%s(name)", c.Results[0], recv, op)
			show = fmt.Sprintf(`fmt.Sprintf("%s(%%q) = %%v", name, %s)`, op, c.Results[0])
		}
	case "oldname,newname":
		loops = "for _, oldname := range g_names {\nfor _, newname := range g_names {\n"
		closeLoops = "}\n}\n"
		call = fmt.Sprintf("%s := %sRename(oldname, newname)", c.Results[0], recv)
		show = fmt.Sprintf(`fmt.Sprintf("Rename(%%q, %%q) = %%v", oldname, newname, %s)`, c.Results[0])
	case "name,flag,perm":
		loops = "for _, name := range g_names {\nfor _, acc := range []int{hackpadfs.FlagReadOnly, hackpadfs.FlagWriteOnly, hackpadfs.FlagReadWrite} {\nfor bits := 0; bits < 16; bits++ {\nflag := acc\nif bits&1 != 0 { flag |= hackpadfs.FlagCreate }\nif bits&2 != 0 { flag |= hackpadfs.FlagExclusive }\nif bits&4 != 0 { flag |= hackpadfs.FlagTruncate }\nif bits&8 != 0 { flag |= hackpadfs.FlagAppend }\nfor _, perm := range []hackpadfs.FileMode{0644, hackpadfs.ModeSticky | 0700} {\n"
		closeLoops = "}\n}\n}\n}\n"
		call = fmt.Sprintf("%s, %s := %sOpenFile(name, flag, perm)", c.Results[0], c.Results[1], recv)
		show = fmt.Sprintf(`fmt.Sprintf("OpenFile(%%q, %%#x, %%v) = %%v, %%v", name, flag, perm, %s, %s)`, c.Results[0], c.Results[1])
	case "name,atime,mtime":
		loops = "for _, name := range g_names {\nfor _, mtime := range []time.Time{{}, time.Unix(1000, 0), time.Unix(0, 0).UTC()} {\natime := mtime\n"
		closeLoops = "}\n}\n"
		call = fmt.Sprintf("%s := %sChtimes(name, atime, mtime)", c.Results[0], recv)
		show = fmt.Sprintf(`fmt.Sprintf("Chtimes(%%q, %%v, %%v) = %%v", name, atime, mtime, %s)`, c.Results[0])
	default:
		return "not-replayable", "no call template for " + op, ""
	}
	_ = decl
	var use []string
	for _, p := range strings.Split(memfsOps[op], ",") {
		use = append(use, "_ = "+p)
	}
	for _, res := range c.Results {
		use = append(use, "_ = "+res)
	}
	src := fmt.Sprintf(`package mem

// generated by govc: replay of %s
// clause: %s

import (
	"errors"
	"fmt"
	gfs "io/fs"
	"io"
	gpath "path"
	"sort"
	gstrings "strings"
	"testing"
	"time"

	"github.com/hack-pad/hackpadfs"
	"github.com/hack-pad/hackpadfs/keyvalue"
	"github.com/hack-pad/hackpadfs/keyvalue/blob"
)

var _ = gfs.ValidPath
var _ = gpath.Clean
var _ = gstrings.HasPrefix
var _ = io.EOF
var _ = time.Now
var _ blob.Blob
var _ = errors.Is
%s
%s
func TestGovcReplay(t *testing.T) {
	fmt.Println("GOVC-REPLAY " + govcRun())
}

func govcEval(f func() bool) (ok bool, evaluated bool) {
	defer func() {
		if r := recover(); r != nil {
			ok, evaluated = true, false // the clause dereferences something its antecedent should have excluded: skip
		}
	}()
	return f(), true
}

func govcRun() (verdict string) {
	for _, spec := range g_states {
		g_universe = append(append([]string{}, g_names...), "x", "a/x", "a/b/x")
		probe, _ := g_build(spec)
		_ = probe
		%s
		fs, st := g_build(spec)
		g_stpre = gStore{g_snap(st)}
		var panicked interface{}
		func() {
			defer func() { panicked = recover() }()
			%s
			g_stpost = gStore{g_snap(st)}
			%s
			ok, _ := govcEval(func() bool { return %s })
			if !ok {
				verdict = "confirmed: on the in-memory file system built by " + fmt.Sprint(spec) + ", " + %s + " violates ensures %s [input found by small-scope search over a catalogue of states and arguments]"
			}
		}()
		if panicked != nil {
			return fmt.Sprint("confirmed: panic: ", panicked, " on state ", spec)
		}
		if verdict != "" {
			return verdict
		}
		%s
	}
	return "not-reproduced"
}
`, r.o.Name(), strings.ReplaceAll(gExprString(clause.Expr), "\n", " "), scalarHelpers, memfsRuntime, loops, call, strings.Join(use, "\n\t\t\t"), goClause, show, label, closeLoops)
	tag := sanitize(r.o.Name())
	dir := filepath_join(outDir, "replay-"+tag)
	mkdirAll(dir)
	var extra map[string]string
	if len(tr.exp) > 0 {
		shim := "package keyvalue\n\n// generated by govc for a replay: read-only views of unexported package-level names\n"
		for _, n := range sortedKeys(tr.exp) {
			shim += "var Govc_" + n + " = " + n + "\n"
		}
		extra = map[string]string{"keyvalue/govc_replay_export.go": shim}
	}
	verdict, out := runReplayTestExtra(e.repo, "mem", src, dir, extra)
	return verdict, out, src
}
