package main

// Forward, path-enumerating symbolic execution of naive-form SSA.

import (
	"fmt"
	"go/constant"
	"go/token"
	"go/types"
	"math/big"
	"sort"
	"strings"

	"golang.org/x/tools/go/ssa"
)

type Frame struct {
	fn     *ssa.Function
	regs   map[ssa.Value]Value
	defers []deferred
	bind   []Value
	loops  []loopFrame
	prefix string // obligation-name prefix for inlined frames
	depth  int
	inl    bool
	prev   *ssa.BasicBlock
}

func (f *Frame) clone() *Frame {
	n := *f
	n.regs = make(map[ssa.Value]Value, len(f.regs))
	for k, v := range f.regs {
		n.regs[k] = v
	}
	n.defers = append([]deferred(nil), f.defers...)
	n.loops = append([]loopFrame(nil), f.loops...)
	return &n
}

type Exec struct {
	eng        *Engine
	fn         *ssa.Function
	c          *Contract
	key        string
	obls       []*Obligation
	paths      int
	pathID     int
	params     map[string]tv
	inputs     []*Term
	ordinals   map[*ssa.Function]map[ssa.Instruction]map[string]int
	loopInfo   map[*ssa.Function]*loopTable
	notes      map[string]bool // uncontracted calls, inlined functions, go statements ...
	errors     []string
	steps      int
	maxPaths   int
	entryDecr  *Term
	pendingTop []string
	freshOnly  map[string]*Sort
	resTypes   map[string][]types.Type
	used       map[string]bool // keys of the verified (not assumed) callee contracts applied while executing this function
}

type execAbort struct{ msg string }

func (x *Exec) fail(format string, a ...interface{}) {
	panic(execAbort{fmt.Sprintf(format, a...)})
}

func (x *Exec) note(kind, what string) { x.notes[kind+": "+what] = true }

// ---- obligations ----

func (x *Exec) oblige(st *State, kind string, goal *Term, pos token.Pos) {
	if goal.IsTrue() || st.dead {
		return
	}
	o := &Obligation{Fn: x.key, Kind: kind, Props: x.c.Props, PC: append([]*Term(nil), st.pc...), Goal: goal, PathID: x.pathID, Inputs: x.inputs}
	if pos.IsValid() {
		o.Pos = x.eng.prog.Fset.Position(pos).String()
	}
	x.obls = append(x.obls, o)
}

// check emits an obligation and then assumes the goal (so one failure is reported once per path).
func (x *Exec) check(st *State, kind string, goal *Term, pos token.Pos) {
	x.oblige(st, kind, goal, pos)
	st.assume(goal)
}

// ---- static numbering of obligation sites ----

func instrKinds(in ssa.Instruction) []string {
	switch i := in.(type) {
	case *ssa.FieldAddr, *ssa.Field:
		return []string{"nilderef"}
	case *ssa.IndexAddr, *ssa.Index:
		return []string{"index", "nilderef"}
	case *ssa.Slice:
		return []string{"slicebounds"}
	case *ssa.MakeSlice:
		return []string{"makeslice"}
	case *ssa.TypeAssert:
		return []string{"typeassert"}
	case *ssa.BinOp:
		switch i.Op {
		case token.ADD, token.SUB, token.MUL:
			return []string{"overflow"}
		case token.QUO, token.REM:
			return []string{"divzero", "overflow"}
		}
	case *ssa.UnOp:
		if i.Op == token.MUL {
			return []string{"nilderef"}
		}
		if i.Op == token.SUB {
			return []string{"overflow"}
		}
	case *ssa.Store:
		return []string{"nilderef"}
	case *ssa.Convert:
		return []string{"convert"}
	case *ssa.Panic:
		return []string{"explicit"}
	case *ssa.Call, *ssa.Defer, *ssa.Go:
		return []string{"call", "nilderef", "lock", "unlock", "nilmap"}
	case *ssa.MapUpdate:
		return []string{"nilmap"}
	}
	return nil
}

func (x *Exec) ordinal(fn *ssa.Function, in ssa.Instruction, kind string) int {
	m, ok := x.ordinals[fn]
	if !ok {
		m = map[ssa.Instruction]map[string]int{}
		counts := map[string]int{}
		for _, b := range fn.Blocks {
			for _, i := range b.Instrs {
				for _, k := range instrKinds(i) {
					counts[k]++
					if m[i] == nil {
						m[i] = map[string]int{}
					}
					m[i][k] = counts[k]
				}
			}
		}
		x.ordinals[fn] = m
	}
	return m[in][kind]
}

func (x *Exec) site(fr *Frame, in ssa.Instruction, kind string) string {
	return fmt.Sprintf("%snopanic.%s@%d", fr.prefix, kind, x.ordinal(fr.fn, in, kind))
}

// ---- loops ----

type loopTable struct {
	headers map[*ssa.BasicBlock]int                      // header -> ordinal (1-based, source order)
	body    map[*ssa.BasicBlock]map[*ssa.BasicBlock]bool // header -> blocks of the natural loop
}

func (x *Exec) loops(fn *ssa.Function) *loopTable {
	if lt, ok := x.loopInfo[fn]; ok {
		return lt
	}
	lt := &loopTable{headers: map[*ssa.BasicBlock]int{}, body: map[*ssa.BasicBlock]map[*ssa.BasicBlock]bool{}}
	var hdrs []*ssa.BasicBlock
	for _, b := range fn.Blocks {
		for _, s := range b.Succs {
			if s.Dominates(b) { // back edge b -> s
				if lt.body[s] == nil {
					lt.body[s] = map[*ssa.BasicBlock]bool{s: true}
					hdrs = append(hdrs, s)
				}
				// natural loop: all blocks that reach b without passing s
				var stack []*ssa.BasicBlock
				if !lt.body[s][b] {
					lt.body[s][b] = true
					stack = append(stack, b)
				}
				for len(stack) > 0 {
					n := stack[len(stack)-1]
					stack = stack[:len(stack)-1]
					for _, p := range n.Preds {
						if !lt.body[s][p] {
							lt.body[s][p] = true
							stack = append(stack, p)
						}
					}
				}
			}
		}
	}
	sort.Slice(hdrs, func(i, j int) bool { return hdrs[i].Index < hdrs[j].Index })
	for i, h := range hdrs {
		lt.headers[h] = i + 1
	}
	x.loopInfo[fn] = lt
	return lt
}

// ---- values of operands ----

func (x *Exec) constValue(c *ssa.Const) Value {
	t := c.Type()
	if c.Value == nil {
		return zeroValue(t)
	}
	switch c.Value.Kind() {
	case constant.Bool:
		return BoolLit(constant.BoolVal(c.Value))
	case constant.String:
		return StrLit(constant.StringVal(c.Value))
	case constant.Int:
		bi, _ := new(big.Int).SetString(c.Value.ExactString(), 10)
		if s, _ := scalarSort(t); s != nil && s.Kind == SBV {
			return BVLit(bi.Uint64(), s.W)
		}
		return BigLit(bi)
	}
	x.fail("unsupported constant %v", c)
	return nil
}

func (x *Exec) val(fr *Frame, st *State, v ssa.Value) Value {
	switch c := v.(type) {
	case *ssa.Const:
		return x.constValue(c)
	case *ssa.Function:
		return ClosureV{Fn: c}
	case *ssa.Global:
		return x.globalPtr(c)
	case *ssa.FreeVar:
		for i, fv := range fr.fn.FreeVars {
			if fv == c {
				return fr.bind[i]
			}
		}
		x.fail("free variable %s not bound", c.Name())
	case *ssa.Builtin:
		return c
	}
	r, ok := fr.regs[v]
	if !ok {
		x.fail("%s: no value for %s (%T)", fr.fn.Name(), v.Name(), v)
	}
	return r
}

// GlobalPtr is the address of a package-level variable.
type GlobalPtr struct{ G *ssa.Global }

func (x *Exec) globalPtr(g *ssa.Global) Value { return GlobalPtr{g} }

func (x *Exec) loadGlobal(g *ssa.Global) Value {
	obj, ok := g.Object().(*types.Var)
	if !ok {
		x.fail("global %s has no object", g.Name())
	}
	return x.eng.globalValue(obj)
}

// ---- execution ----

type cont func(st *State, rets []Value)

func (x *Exec) runBlock(fr *Frame, b *ssa.BasicBlock, idx int, st *State, k cont) {
	for i := idx; i < len(b.Instrs); i++ {
		if st.dead {
			return
		}
		x.steps++
		if x.steps > 400000 {
			x.fail("step budget exhausted (missing loop invariant or path explosion)")
		}
		in := b.Instrs[i]
		switch n := in.(type) {
		case *ssa.If:
			c := x.val(fr, st, n.Cond).(*Term)
			tb, fb := b.Succs[0], b.Succs[1]
			if c.IsTrue() {
				x.enter(fr, b, tb, st, k)
				return
			}
			if c.IsFalse() {
				x.enter(fr, b, fb, st, k)
				return
			}
			st2, fr2 := st.clone(), fr.clone()
			st.assume(c)
			x.enter(fr, b, tb, st, k)
			st2.assume(Not(c))
			x.enter(fr2, b, fb, st2, k)
			return
		case *ssa.Jump:
			x.enter(fr, b, b.Succs[0], st, k)
			return
		case *ssa.Return:
			rets := make([]Value, len(n.Results))
			for j, r := range n.Results {
				rets[j] = x.val(fr, st, r)
			}
			k(st, rets)
			return
		case *ssa.Panic:
			if !fr.inl || true {
				x.oblige(st, fr.prefix+fmt.Sprintf("nopanic.explicit@%d", x.ordinal(fr.fn, in, "explicit")), False, n.Pos())
			}
			return
		case *ssa.RunDefers:
			ds := fr.defers
			fr.defers = nil
			x.runDefers(fr, ds, st, func(st2 *State) { x.runBlock(fr.clone(), b, i+1, st2, k) })
			return
		case ssa.CallInstruction:
			if d, ok := in.(*ssa.Defer); ok {
				cc := d.Common()
				df := deferred{call: cc, instr: in}
				df.fn = x.val(fr, st, cc.Value)
				for _, a := range cc.Args {
					df.args = append(df.args, x.val(fr, st, a))
				}
				fr.defers = append(fr.defers, df)
				continue
			}
			if g, ok := in.(*ssa.Go); ok {
				x.note("go statement (spawned function verified separately, interleaving not modelled)", fr.fn.Name())
				x.checkSpawn(fr, st, g)
				continue
			}
			call := in.(*ssa.Call)
			x.checkCallsites(fr, st, call)
			x.doCall(fr, st, call, call.Common(), nil, func(st2 *State, rets []Value) {
				fr2 := fr.clone()
				var rv Value
				switch len(rets) {
				case 0:
					rv = TupleV(nil)
				case 1:
					rv = rets[0]
				default:
					rv = TupleV(rets)
				}
				if t, ok := rv.(*Term); ok {
					rv = nameBig(t)
				}
				x.trackPropagates(fr, st2, call.Common(), rets)
				x.trackResults(fr, st2, call.Common(), rets)
				fr2.regs[call] = rv
				x.runBlock(fr2, b, i+1, st2, k)
			})
			return
		default:
			x.step(fr, st, in)
		}
	}
}

// enter transfers control to block to (from block from), applying the loop rule at loop headers.
func (x *Exec) enter(fr *Frame, from, to *ssa.BasicBlock, st *State, k cont) {
	fr.prev = from
	lt := x.loops(fr.fn)
	ord, isHdr := lt.headers[to]
	if !isHdr {
		x.runBlock(fr, to, 0, st, k)
		return
	}
	back := from != nil && lt.body[to][from]
	x.loopRule(fr, to, ord, back, st, k)
}

func (x *Exec) runDefers(fr *Frame, ds []deferred, st *State, k func(*State)) {
	if len(ds) == 0 {
		k(st)
		return
	}
	d := ds[len(ds)-1]
	rest := ds[:len(ds)-1]
	x.doCall(fr, st, nil, d.call, &d, func(st2 *State, _ []Value) {
		x.runDefers(fr, rest, st2, k)
	})
}

func (x *Exec) step(fr *Frame, st *State, in ssa.Instruction) {
	switch n := in.(type) {
	case *ssa.DebugRef:
	case *ssa.Alloc:
		t := n.Type().(*types.Pointer).Elem()
		if !n.Heap {
			st.ncell++
			c := &Cell{id: st.ncell, name: n.Comment, T: t}
			st.cells[c] = zeroValue(t)
			fr.regs[n] = CellPtr{C: c}
			return
		}
		id := st.alloc()
		switch {
		case isPlainStruct(t):
			st.writeStruct(t, id, zeroValue(t))
			x.initOpaque(st, t, id)
		case isOpaqueStruct(t):
			// zero value of sync.Mutex / sync.Once: unlocked / not done
			st.setArr("G|held", Store(heldArr(st), id, False))
			st.setArr("G|oncedone", Store(st.arr("G|oncedone", ArrayS(IntS, BoolS)), id, False))
		default:
			if at, ok := types.Unalias(t).Underlying().(*types.Array); ok {
				x.zeroElems(st, at.Elem(), id)
			} else {
				st.writePtr(t, id, zeroValue(t))
			}
		}
		fr.regs[n] = id
	case *ssa.Store:
		p := x.val(fr, st, n.Addr)
		v := x.val(fr, st, n.Val)
		pt := n.Addr.Type().Underlying().(*types.Pointer).Elem()
		x.nilCheck(fr, st, in, p)
		if gp, ok := p.(GlobalPtr); ok {
			x.fail("store to package-level variable %s", gp.G.Name())
		}
		st.store(p, pt, x.fnTerm(st, v))
	case *ssa.Send:
		// a send is recorded in ghost state: gint("sent", ch) counts the sends, gint("sentlast<comp>", ch) holds the
		// last value sent (scalar components only). Blocking is not modelled.
		ch, ok := x.val(fr, st, n.Chan).(*Term)
		if !ok {
			x.fail("send on an unsupported channel value")
		}
		x.note("channel send: recorded in ghost state (count and last value); blocking and the receiver are not modelled", fr.fn.Name())
		cnt := st.arr("G|sent", ArrayS(IntS, IntS))
		st.setArr("G|sent", Store(cnt, ch, Add(Select(cnt, ch), IntLit(1))))
		et := n.Chan.Type().Underlying().(*types.Chan).Elem()
		cs := comps(et)
		vs := toComps(et, x.fnTerm(st, x.val(fr, st, n.X)))
		for i, c := range cs {
			if c.sort.Kind != SInt {
				continue
			}
			name := "G|sentlast" + c.suffix
			st.setArr(name, Store(st.arr(name, ArrayS(IntS, IntS)), ch, vs[i]))
		}
	case *ssa.UnOp:
		fr.regs[n] = x.unop(fr, st, n)
	case *ssa.BinOp:
		v := x.binop(fr, st, n)
		if t, ok := v.(*Term); ok {
			v = nameBig(t)
		}
		fr.regs[n] = v
	case *ssa.FieldAddr:
		base := x.val(fr, st, n.X)
		st0 := n.X.Type().Underlying().(*types.Pointer).Elem()
		switch b := base.(type) {
		case ElemPtr:
			fr.regs[n] = ElemPtr{Ref: b.Ref, Idx: b.Idx, Elem: b.Elem, Path: append(append([]int(nil), b.Path...), n.Field)}
		case CellPtr:
			fr.regs[n] = CellPtr{C: b.C, Path: append(append([]int(nil), b.Path...), n.Field)}
		case *Term:
			x.check(st, x.site(fr, in, "nilderef"), Neq(b, IntLit(0)), n.Pos())
			owner := namedOf(st0)
			if owner == nil {
				x.fail("field of unnamed struct type %s", st0)
			}
			ft := structOf(owner).Field(n.Field).Type()
			if isPlainStruct(ft) || isOpaqueStruct(ft) {
				fr.regs[n] = embAddr(owner, n.Field, b)
			} else {
				fr.regs[n] = FieldPtr{Obj: b, Owner: owner, Idx: n.Field}
			}
		default:
			x.fail("FieldAddr on %T", base)
		}
	case *ssa.Field:
		base := x.val(fr, st, n.X)
		sv, ok := base.(StructV)
		if !ok {
			x.fail("Field on %T", base)
		}
		fr.regs[n] = sv.F[n.Field]
	case *ssa.IndexAddr:
		base := x.val(fr, st, n.X)
		idx := x.val(fr, st, n.Index).(*Term)
		switch b := base.(type) {
		case SliceV:
			x.check(st, x.site(fr, in, "index"), And(Le(IntLit(0), idx), Lt(idx, b.Len)), n.Pos())
			fr.regs[n] = ElemPtr{Ref: b.Ref, Idx: SIdx(b.Off, idx), Elem: b.Elem}
		case *Term: // pointer to array
			at := n.X.Type().Underlying().(*types.Pointer).Elem().Underlying().(*types.Array)
			x.check(st, x.site(fr, in, "nilderef"), Neq(b, IntLit(0)), n.Pos())
			x.check(st, x.site(fr, in, "index"), And(Le(IntLit(0), idx), Lt(idx, IntLit(at.Len()))), n.Pos())
			fr.regs[n] = ElemPtr{Ref: b, Idx: idx, Elem: at.Elem()}
		default:
			x.fail("IndexAddr on %T", base)
		}
	case *ssa.Index:
		base := x.val(fr, st, n.X)
		idx := x.val(fr, st, n.Index).(*Term)
		switch b := base.(type) {
		case *Term:
			if b.Sort.Kind == SString {
				x.check(st, x.site(fr, in, "index"), And(Le(IntLit(0), idx), Lt(idx, StrLen(b))), n.Pos())
				fr.regs[n] = mk("str.to_code", IntS, StrAt(b, idx))
				return
			}
		}
		x.fail("Index on %T", base)
	case *ssa.Slice:
		fr.regs[n] = x.sliceOp(fr, st, n)
	case *ssa.MakeSlice:
		ln := x.val(fr, st, n.Len).(*Term)
		cp := x.val(fr, st, n.Cap).(*Term)
		x.check(st, x.site(fr, in, "makeslice"), And(Le(IntLit(0), ln), Le(ln, cp), Le(cp, BigLit(maxLen))), n.Pos())
		elem := n.Type().Underlying().(*types.Slice).Elem()
		id := st.alloc()
		x.zeroElems(st, elem, id)
		fr.regs[n] = SliceV{Ref: id, Off: IntLit(0), Len: ln, Cap: cp, Elem: elem}
	case *ssa.MakeInterface:
		fr.regs[n] = x.makeIface(st, n.X.Type(), x.fnTerm(st, x.val(fr, st, n.X)))
	case *ssa.ChangeInterface:
		fr.regs[n] = x.val(fr, st, n.X)
	case *ssa.ChangeType:
		fr.regs[n] = x.val(fr, st, n.X)
	case *ssa.Convert:
		fr.regs[n] = x.convert(fr, st, n)
	case *ssa.TypeAssert:
		fr.regs[n] = x.typeAssert(fr, st, n)
	case *ssa.Extract:
		t := x.val(fr, st, n.Tuple).(TupleV)
		fr.regs[n] = t[n.Index]
	case *ssa.MakeClosure:
		fn := n.Fn.(*ssa.Function)
		var bind []Value
		for _, b := range n.Bindings {
			bind = append(bind, x.val(fr, st, b))
		}
		fr.regs[n] = ClosureV{Fn: fn, Bind: bind}
	case *ssa.MakeMap:
		id := st.alloc()
		mt := n.Type().Underlying().(*types.Map)
		x.mapInit(st, mt, id)
		fr.regs[n] = id
	case *ssa.MapUpdate:
		m := x.val(fr, st, n.Map).(*Term)
		mt := n.Map.Type().Underlying().(*types.Map)
		x.check(st, x.site(fr, in, "nilmap"), Neq(m, IntLit(0)), n.Pos())
		x.mapSet(st, mt, m, x.val(fr, st, n.Key), x.val(fr, st, n.Value))
	case *ssa.Lookup:
		base := x.val(fr, st, n.X)
		if bt, ok := base.(*Term); ok && bt.Sort.Kind == SString {
			idx := x.val(fr, st, n.Index).(*Term)
			x.check(st, x.site(fr, in, "index"), And(Le(IntLit(0), idx), Lt(idx, StrLen(bt))), n.Pos())
			fr.regs[n] = mk("str.to_code", IntS, StrAt(bt, idx))
			return
		}
		mt := n.X.Type().Underlying().(*types.Map)
		v, ok := x.mapGet(st, mt, base.(*Term), x.val(fr, st, n.Index))
		if n.CommaOk {
			fr.regs[n] = TupleV{v, ok}
		} else {
			fr.regs[n] = v
		}
	case *ssa.Select:
		fr.regs[n] = x.selectOp(fr, st, n)
		x.trackRecv(fr, st, n, fr.regs[n].(TupleV))
	case *ssa.MakeChan:
		fr.regs[n] = st.alloc()
	case *ssa.Range:
		mt, ok := n.X.Type().Underlying().(*types.Map)
		if !ok {
			x.fail("range over %s not supported", n.X.Type())
		}
		ks, _ := scalarSort(mt.Key())
		m := x.val(fr, st, n.X).(*Term)
		key := fmt.Sprintf("iter|%p", n)
		st.ghostV[key] = ConstArray(ArrayS(ks, BoolS), False)
		fr.regs[n] = MapIterV{Key: key, Addr: m, MT: mt}
	case *ssa.Next:
		it, ok := x.val(fr, st, n.Iter).(MapIterV)
		if !ok {
			x.fail("next on a non-map iterator")
		}
		x.trusted("range over a Go map: every key is visited exactly once, in arbitrary order")
		ks, _ := scalarSort(it.MT.Key())
		V := st.ghostV[it.Key].(*Term)
		dom := Select(st.arr(mapArrBase(it.MT)+"|dom", ArrayS(IntS, ArrayS(ks, BoolS))), it.Addr)
		more := Const(freshName("more"), BoolS)
		k := Const(freshName("rkey"), ks)
		st.assume(Implies(more, And(Select(dom, k), Not(Select(V, k)))))
		q := Var(freshName("q"), ks)
		st.assume(Implies(Not(more), Forall([]*Term{q}, Implies(Select(dom, q), Select(V, q)))))
		st.ghostV[it.Key] = Ite(more, Store(V, k, True), V)
		v, _ := x.mapGet(st, it.MT, it.Addr, k)
		fr.regs[n] = TupleV{more, k, v}
	case *ssa.Phi:
		// only short-circuit boolean expressions produce phis in naive form
		idx := -1
		for i, p := range n.Block().Preds {
			if p == fr.prev {
				idx = i
			}
		}
		if idx < 0 {
			x.fail("phi without a known predecessor")
		}
		fr.regs[n] = x.val(fr, st, n.Edges[idx])
	default:
		x.fail("unsupported instruction %T: %s", in, in)
	}
}

// initOpaque gives the by-value sync.Mutex / sync.Once / sync.Map fields of a new struct their zero meaning.
func (x *Exec) initOpaque(st *State, t types.Type, addr *Term) {
	owner := namedOf(t)
	s := structOf(t)
	if owner == nil || s == nil {
		return
	}
	for i := 0; i < s.NumFields(); i++ {
		f := s.Field(i)
		ft := types.Unalias(f.Type())
		a := embAddr(owner, i, addr)
		switch {
		case isNamed(ft, "sync", "Mutex"), isNamed(ft, "sync", "RWMutex"):
			st.setArr("G|held", Store(heldArr(st), a, False))
		case isNamed(ft, "sync", "Once"):
			st.setArr("G|oncedone", Store(st.arr("G|oncedone", ArrayS(IntS, BoolS)), a, False))
		case isNamed(ft, "sync/atomic", "Value"):
			// zero atomic.Value: nothing stored (ghost cells of the extern contracts of Store/Load)
			st.setArr("G|atomtag", Store(st.arr("G|atomtag", ArrayS(IntS, IntS)), a, IntLit(0)))
			st.setArr("G|atomval", Store(st.arr("G|atomval", ArrayS(IntS, IntS)), a, IntLit(0)))
		case isNamed(ft, "sync", "Map"):
			if owner.Obj().Pkg() == nil {
				continue
			}
			spec := x.eng.cs.SyncMaps[owner.Obj().Pkg().Path()+"."+owner.Obj().Name()+"."+f.Name()]
			if spec == nil {
				continue
			}
			mv := x.eng.syncMapV(spec, a)
			ks, _ := scalarSort(mv.KeyT)
			dn := mv.Name + "|dom"
			st.setArr(dn, Store(st.arr(dn, ArrayS(IntS, ArrayS(ks, BoolS))), a, ConstArray(ArrayS(ks, BoolS), False)))
		case isPlainStruct(ft):
			x.initOpaque(st, ft, a)
		}
	}
}

// selectOp: a receive on a context Done() channel is ready iff the context is cancelled. A receive on any other
// channel may or may not be ready (arbitrary) and yields an arbitrary value of the element type: what other
// goroutines send is not modelled. Sends in a select are not supported.
func (x *Exec) selectOp(fr *Frame, st *State, n *ssa.Select) Value {
	var ready []*Term
	generic := false
	if n.Blocking {
		// While this goroutine blocks, others run: any context may be cancelled meanwhile (cancellation is monotone, the
		// background context is never cancelled). Without this step a blocking wait on a context nobody has cancelled yet
		// never returns in the sequential model and the code after it is dead - whatever it does (the mutation sweep
		// deleted the Unlock before the final select of pubsub.Wait and nothing failed).
		old := cancelledArr(st)
		nw := Const(freshName("cancelled|env"), ArrayS(IntS, BoolS))
		q := Var(freshName("c"), IntS)
		st.assume(Forall([]*Term{q}, Implies(Select(old, q), Select(nw, q))))
		st.assume(Not(Select(nw, IntLit(0))))
		st.setArr("G|cancelled", nw)
		x.note("blocking select", "other goroutines may cancel any context while this one blocks (monotone havoc of the cancellation flags)")
	}
	for _, s := range n.States {
		ch, ok := x.val(fr, st, s.Chan).(*Term)
		if s.Dir != types.RecvOnly || !ok {
			x.fail("select with a send, or on an unsupported channel value")
		}
		if ch.Op == "app" && ch.Name == "donechan" {
			ready = append(ready, Select(cancelledArr(st), ch.Args[0]))
			continue
		}
		generic = true
		ready = append(ready, Const(freshName("chanready"), BoolS))
	}
	if generic {
		x.note("select receiving from a channel other goroutines send on: readiness and the received value are arbitrary (the senders are verified separately; interleaving is not modelled)", fr.fn.Name())
	}
	idx := Const(freshName("selidx"), IntS)
	var cs []*Term
	lo := int64(0)
	if !n.Blocking {
		lo = -1
		cs = append(cs, Implies(Eq(idx, IntLit(-1)), Not(Or(ready...))))
	} else {
		x.note("blocking select: assumed to return only when a case is ready (liveness not verified)", fr.fn.Name())
		cs = append(cs, Or(ready...))
	}
	cs = append(cs, Le(IntLit(lo), idx), Lt(idx, IntLit(int64(len(ready)))))
	for i, r := range ready {
		cs = append(cs, Implies(Eq(idx, IntLit(int64(i))), r))
	}
	if !n.Blocking {
		cs = append(cs, Implies(Or(ready...), Neq(idx, IntLit(-1))))
	}
	st.assume(And(cs...))
	out := TupleV{idx, False}
	for _, s := range n.States {
		if s.Dir == types.RecvOnly {
			et := s.Chan.Type().Underlying().(*types.Chan).Elem()
			ch := x.val(fr, st, s.Chan).(*Term)
			if ch.Op == "app" && ch.Name == "donechan" {
				out = append(out, zeroValue(et))
			} else {
				out = append(out, st.fresh(et, "recv"))
			}
		}
	}
	return out
}

func (x *Exec) zeroElems(st *State, elem types.Type, id *Term) {
	for _, c := range comps(elem) {
		name := elemArrName(elem, c.suffix)
		as := ArrayS(IntS, ArrayS(IntS, c.sort))
		st.setArr(name, Store(st.arr(name, as), id, ConstArray(ArrayS(IntS, c.sort), zeroTerm(c))))
	}
}

func (x *Exec) nilCheck(fr *Frame, st *State, in ssa.Instruction, p Value) {
	if t, ok := p.(*Term); ok {
		x.check(st, x.site(fr, in, "nilderef"), Neq(t, IntLit(0)), in.Pos())
	}
}

// conv adapts a value when static types differ only by interface-ness (never needed in SSA, kept for safety).
func (x *Exec) conv(v Value, from, to types.Type) Value { return v }

func (x *Exec) makeIface(st *State, t types.Type, v Value) Value {
	if types.IsInterface(t) {
		return v
	}
	tag := tagTerm(t)
	if payloadIsValue(t) {
		return IfaceV{tag, v.(*Term)}
	}
	// box the value
	id := st.alloc()
	if isPlainStruct(t) {
		st.writeStruct(t, id, v)
	} else if isOpaqueStruct(t) {
	} else {
		st.writePtr(t, id, v)
	}
	return IfaceV{tag, id}
}

func (x *Exec) unbox(st *State, iv IfaceV, t types.Type) Value {
	if payloadIsValue(t) {
		return iv.Val
	}
	var v Value
	if isPlainStruct(t) {
		v = readStruct(st.heap, t, iv.Val)
	} else {
		v = readPtr(st.heap, t, iv.Val)
	}
	st.assumeAll(typeFacts(t, v, st.heaptop))
	return v
}

func (x *Exec) typeAssert(fr *Frame, st *State, n *ssa.TypeAssert) Value {
	iv, ok := x.val(fr, st, n.X).(IfaceV)
	if !ok {
		x.fail("TypeAssert on non-interface value")
	}
	at := n.AssertedType
	var okT *Term
	var res Value
	if types.IsInterface(at) {
		okT = And(Neq(iv.Tag, IntLit(0)), x.eng.implTerm(iv.Tag, at))
		res = iv
	} else {
		okT = Eq(iv.Tag, tagTerm(at))
		res = x.unbox(st, iv, at)
	}
	if n.CommaOk {
		// on failure the value is the zero value
		zero := zeroValue(at)
		return TupleV{x.iteValue(at, okT, res, zero), okT}
	}
	x.check(st, x.site(fr, n, "typeassert"), okT, n.Pos())
	return res
}

func (x *Exec) iteValue(t types.Type, c *Term, a, b Value) Value {
	if c.IsTrue() {
		return a
	}
	if c.IsFalse() {
		return b
	}
	at, bt := toComps(t, a), toComps(t, b)
	out := make([]*Term, len(at))
	for i := range at {
		out[i] = Ite(c, at[i], bt[i])
	}
	v, _ := fromComps(t, out)
	return v
}

func (x *Exec) unop(fr *Frame, st *State, n *ssa.UnOp) Value {
	v := x.val(fr, st, n.X)
	switch n.Op {
	case token.MUL: // load
		pt := n.X.Type().Underlying().(*types.Pointer).Elem()
		if gp, ok := v.(GlobalPtr); ok {
			return x.loadGlobal(gp.G)
		}
		x.nilCheck(fr, st, n, v)
		return st.load(v, pt)
	case token.NOT:
		return Not(v.(*Term))
	case token.SUB:
		t := v.(*Term)
		r := Neg(t)
		x.overflow(fr, st, n, n.Type(), r)
		return r
	case token.XOR:
		t := v.(*Term)
		if t.Sort.Kind == SBV {
			return BVNot(t)
		}
		return App("bnot", IntS, t)
	case token.ARROW:
		// a blocking receive: from a context's Done() channel it returns once the context is cancelled (that it
		// ever returns is not verified); from any other channel it yields an arbitrary value (senders not modelled)
		ch, ok := x.val(fr, st, n.X).(*Term)
		if !ok {
			x.fail("receive on an unsupported channel value")
		}
		et := n.X.Type().Underlying().(*types.Chan).Elem()
		x.note("blocking receive: assumed to return (liveness not verified)", fr.fn.Name())
		var v Value
		if ch.Op == "app" && ch.Name == "donechan" {
			st.assume(Select(cancelledArr(st), ch.Args[0]))
			v = zeroValue(et)
		} else {
			v = st.fresh(et, "recv")
		}
		if n.CommaOk {
			return TupleV{v, Const(freshName("recvok"), BoolS)}
		}
		return v
	}
	x.fail("unsupported unary op %s", n.Op)
	return nil
}

func (x *Exec) overflow(fr *Frame, st *State, in ssa.Instruction, t types.Type, r *Term) {
	lo, hi, ok := intRange(t)
	if !ok || r.IsInt() && r.Int.Cmp(lo) >= 0 && r.Int.Cmp(hi) <= 0 {
		return
	}
	if b, isb := types.Unalias(t).Underlying().(*types.Basic); isb && b.Info()&types.IsUnsigned != 0 {
		// unsigned arithmetic wraps by definition; model it as such
		return
	}
	kind := fmt.Sprintf("%soverflow@%d", fr.prefix, x.ordinal(fr.fn, in, "overflow"))
	x.check(st, kind, And(Le(BigLit(lo), r), Le(r, BigLit(hi))), in.Pos())
}

func (x *Exec) binop(fr *Frame, st *State, n *ssa.BinOp) Value {
	a, b := x.val(fr, st, n.X), x.val(fr, st, n.Y)
	if n.Op == token.EQL || n.Op == token.NEQ {
		r := valEq(tv{a, n.X.Type()}, tv{b, n.Y.Type()})
		if at, ok := a.(*Term); ok {
			if bt, ok2 := b.(*Term); ok2 && at.Sort.Kind == SInt && bt.Sort.Kind == SInt {
				r = binTerm(token.EQL, at, bt)
			}
		}
		if n.Op == token.NEQ {
			return Not(r)
		}
		return r
	}
	at, ok1 := a.(*Term)
	bt, ok2 := b.(*Term)
	if !ok1 || !ok2 {
		x.fail("binary %s on %T/%T", n.Op, a, b)
	}
	switch n.Op {
	case token.SHL, token.SHR:
		if at.IsInt() && bt.IsInt() {
			if n.Op == token.SHL {
				return BigLit(new(big.Int).Lsh(at.Int, uint(bt.Int.Int64())))
			}
			return BigLit(new(big.Int).Rsh(at.Int, uint(bt.Int.Int64())))
		}
		return App("shift|"+n.Op.String(), at.Sort, at, bt)
	case token.QUO, token.REM:
		if at.Sort.Kind == SInt {
			x.check(st, x.site(fr, n, "divzero"), Neq(bt, IntLit(0)), n.Pos())
		}
	}
	r := binTerm(n.Op, at, bt)
	if r.Sort.Kind == SInt {
		switch n.Op {
		case token.ADD, token.SUB, token.MUL, token.QUO:
			x.overflow(fr, st, n, n.Type(), r)
		}
	}
	return r
}

func (x *Exec) convert(fr *Frame, st *State, n *ssa.Convert) Value {
	v := x.val(fr, st, n.X)
	from, to := n.X.Type(), n.Type()
	fs, fk := scalarSort(from)
	ts, tk := scalarSort(to)
	t, isT := v.(*Term)
	switch {
	case isT && fs != nil && ts != nil && fs.Kind == SInt && ts.Kind == SInt && fk == "int" && tk == "int":
		lo, hi, ok := intRange(to)
		if ok {
			flo, fhi, _ := intRange(from)
			if flo == nil || flo.Cmp(lo) < 0 || fhi.Cmp(hi) > 0 {
				// narrowing: obligation that the value fits (else Go wraps silently)
				kind := fmt.Sprintf("%sconvert@%d", fr.prefix, x.ordinal(fr.fn, n, "convert"))
				x.check(st, kind, And(Le(BigLit(lo), t), Le(t, BigLit(hi))), n.Pos())
			}
		}
		return t
	case isT && fs != nil && ts != nil && fs.Kind == ts.Kind && fs.Kind != SBV:
		return t
	case isT && fs != nil && ts != nil && fs.Kind == SBV && ts.Kind == SBV:
		if fs.W == ts.W {
			return t
		}
	case isT && ts != nil && ts.Kind == SString && fs != nil && fs.Kind == SInt:
		// string(rune)
		return mk("str.from_code", StringS, t)
	case isT && fs != nil && fs.Kind == SBV && ts != nil && ts.Kind == SInt:
		return mk("bv2nat", IntS, t)
	case isT && fs != nil && fs.Kind == SInt && ts != nil && ts.Kind == SBV:
		if t.IsInt() {
			return BVLit(t.Int.Uint64(), ts.W)
		}
		return mk(fmt.Sprintf("(_ int2bv %d)", ts.W), ts, t)
	}
	if _, ok := v.(SliceV); ok && fs != nil && fs.Kind == SString {
		x.fail("[]byte(string) conversion not supported")
	}
	if sv, ok := v.(SliceV); ok && ts != nil && ts.Kind == SString {
		_ = sv
		x.fail("string([]byte) conversion not supported")
	}
	// pointer conversions such as (*int64)(&u.nextOp)
	switch v.(type) {
	case FieldPtr, CellPtr, ElemPtr:
		return v
	}
	x.fail("unsupported conversion %s -> %s", from, to)
	return nil
}

func (x *Exec) sliceOp(fr *Frame, st *State, n *ssa.Slice) Value {
	base := x.val(fr, st, n.X)
	get := func(v ssa.Value, def *Term) *Term {
		if v == nil {
			return def
		}
		return x.val(fr, st, v).(*Term)
	}
	kind := x.site(fr, n, "slicebounds")
	switch b := base.(type) {
	case SliceV:
		lo := get(n.Low, IntLit(0))
		hi := get(n.High, b.Len)
		mx := get(n.Max, b.Cap)
		x.check(st, kind, And(Le(IntLit(0), lo), Le(lo, hi), Le(hi, mx), Le(mx, b.Cap)), n.Pos())
		return SliceV{Ref: b.Ref, Off: Add(b.Off, lo), Len: Sub(hi, lo), Cap: Sub(mx, lo), Elem: b.Elem}
	case *Term:
		if b.Sort.Kind == SString {
			lo := get(n.Low, IntLit(0))
			hi := get(n.High, StrLen(b))
			x.check(st, kind, And(Le(IntLit(0), lo), Le(lo, hi), Le(hi, StrLen(b))), n.Pos())
			if lo.IsInt() && lo.Int.Sign() == 0 && n.High == nil {
				return b
			}
			return StrSubstr(b, lo, Sub(hi, lo))
		}
		// pointer to array
		at, ok := n.X.Type().Underlying().(*types.Pointer)
		if ok {
			arr := at.Elem().Underlying().(*types.Array)
			ln := IntLit(arr.Len())
			lo := get(n.Low, IntLit(0))
			hi := get(n.High, ln)
			mx := get(n.Max, ln)
			x.check(st, kind, And(Le(IntLit(0), lo), Le(lo, hi), Le(hi, mx), Le(mx, ln)), n.Pos())
			return SliceV{Ref: b, Off: lo, Len: Sub(hi, lo), Cap: Sub(mx, lo), Elem: arr.Elem()}
		}
	}
	x.fail("Slice on %T", base)
	return nil
}

// ---- Go maps as ghost (dom, val) arrays keyed by the map object's address ----

func mapArrBase(mt *types.Map) string { return "M|" + typeStr(mt) }

func (x *Exec) mapInit(st *State, mt *types.Map, id *Term) {
	ks, _ := scalarSort(mt.Key())
	if ks == nil {
		x.fail("map key type %s not supported", mt.Key())
	}
	name := mapArrBase(mt) + "|dom"
	st.setArr(name, Store(st.arr(name, ArrayS(IntS, ArrayS(ks, BoolS))), id, ConstArray(ArrayS(ks, BoolS), False)))
}

func (x *Exec) mapSet(st *State, mt *types.Map, m *Term, k, v Value) {
	ks, _ := scalarSort(mt.Key())
	kt := k.(*Term)
	dn := mapArrBase(mt) + "|dom"
	da := st.arr(dn, ArrayS(IntS, ArrayS(ks, BoolS)))
	st.setArr(dn, Store(da, m, Store(Select(da, m), kt, True)))
	ts := toComps(mt.Elem(), v)
	for i, c := range comps(mt.Elem()) {
		vn := mapArrBase(mt) + "|val" + c.suffix
		va := st.arr(vn, ArrayS(IntS, ArrayS(ks, c.sort)))
		st.setArr(vn, Store(va, m, Store(Select(va, m), kt, ts[i])))
	}
}

func (x *Exec) mapGet(st *State, mt *types.Map, m *Term, k Value) (Value, *Term) {
	ks, _ := scalarSort(mt.Key())
	kt := k.(*Term)
	da := st.arr(mapArrBase(mt)+"|dom", ArrayS(IntS, ArrayS(ks, BoolS)))
	present := Select(Select(da, m), kt)
	cs := comps(mt.Elem())
	ts := make([]*Term, len(cs))
	for i, c := range cs {
		va := st.arr(mapArrBase(mt)+"|val"+c.suffix, ArrayS(IntS, ArrayS(ks, c.sort)))
		ts[i] = Ite(present, Select(Select(va, m), kt), zeroTerm(c))
	}
	v, _ := fromComps(mt.Elem(), ts)
	// a value read from a map is a value of the element type (what was stored, or the zero value)
	st.assumeAll(typeFacts(mt.Elem(), v, st.heaptop))
	return v, present
}

func shortFn(fn *ssa.Function) string {
	s := fn.String()
	return strings.ReplaceAll(shortType(s), "github.com/hack-pad/", "")
}


// calleeNames: the names a `propagates` clause may use for the function called here.
func calleeNames(cc *ssa.CallCommon) []string {
	if cc.IsInvoke() {
		return []string{cc.Method.Name()}
	}
	// a function value loaded from a struct field is named after the field (fs.callerCancel())
	if u, ok := cc.Value.(*ssa.UnOp); ok && u.Op == token.MUL {
		if fa, ok := u.X.(*ssa.FieldAddr); ok {
			if st, ok := types.Unalias(fa.X.Type().Underlying().(*types.Pointer).Elem()).Underlying().(*types.Struct); ok {
				return []string{st.Field(fa.Field).Name()}
			}
		}
	}
	if fn := cc.StaticCallee(); fn != nil {
		out := []string{fn.Name()}
		if r := fn.Signature.Recv(); r != nil {
			out = append(out, strings.TrimPrefix(recvString(r.Type()), "*")+"."+fn.Name())
		}
		return out
	}
	return []string{cc.Value.Name()}
}

func failedKey(callee string) string { return "failed|" + callee }

// trackPropagates maintains the ghost flag failed(callee): some call of callee made by the function under
// verification has returned a non-nil error that its `propagates` clause does not excuse.
func (x *Exec) trackPropagates(fr *Frame, st *State, cc *ssa.CallCommon, rets []Value) {
	if x.c == nil || len(x.c.Propagates) == 0 || fr.fn != x.fn || len(rets) == 0 {
		return
	}
	ev, ok := rets[len(rets)-1].(IfaceV)
	if !ok {
		return
	}
	names := calleeNames(cc)
	for _, p := range x.c.Propagates {
		hit := false
		for _, n := range names {
			if n == p.Label {
				hit = true
			}
		}
		if !hit {
			continue
		}
		cond := Not(And(Eq(ev.Tag, IntLit(0)), Eq(ev.Val, IntLit(0))))
		if p.Expr != nil {
			env := &Env{eng: x.eng, st: st, vars: map[string]tv{}, pkg: x.eng.typesPkg(x.c.Pkg), old: heapSnap{}, oldTop: st.top0}
			for n, v := range x.params {
				env.vars[n] = v
			}
			env.vars["e"] = tv{ev, types.Universe.Lookup("error").Type()}
			cond = And(cond, Not(x.evalClause(env, x.c, "propagates "+p.Label+" unless", p.Expr)))
		}
		cur, _ := st.ghostV[failedKey(p.Label)].(*Term)
		if cur == nil {
			cur = False
		}
		st.ghostV[failedKey(p.Label)] = Or(cur, cond)
	}
}

// trackResults records, for `tracks` / `propagates` callees, that the call happened and what it returned
// (called("callee"), result("callee", j) in the function's own ensures clauses and invariants).
func (x *Exec) trackResults(fr *Frame, st *State, cc *ssa.CallCommon, rets []Value) {
	if x.c == nil || len(x.c.Propagates) == 0 || fr.fn != x.fn {
		return
	}
	names := calleeNames(cc)
	for _, p := range x.c.Propagates {
		for _, n := range names {
			if n != p.Label {
				continue
			}
			st.ghostV["called|"+p.Label] = True
			nc, _ := st.ghostV["ncalls|"+p.Label].(*Term)
			if nc == nil {
				nc = IntLit(0)
			}
			st.ghostV["ncalls|"+p.Label] = Add(nc, IntLit(1))
			for j, r := range rets {
				st.ghostV[fmt.Sprintf("res|%s|%d", p.Label, j)] = r
			}
		}
	}
}

// trackedResultTypes: result types of the tracked callees, from the call sites in the function under verification.
func (x *Exec) trackedResultTypes() map[string][]types.Type {
	if x.resTypes != nil {
		return x.resTypes
	}
	x.resTypes = map[string][]types.Type{}
	if x.c == nil || len(x.c.Propagates) == 0 {
		return x.resTypes
	}
	for _, b := range x.fn.Blocks {
		for _, in := range b.Instrs {
			call, ok := in.(*ssa.Call)
			if !ok {
				continue
			}
			cc := call.Common()
			for _, n := range calleeNames(cc) {
				for _, p := range x.c.Propagates {
					if n == p.Label {
						var ts []types.Type
						res := cc.Signature().Results()
						for j := 0; j < res.Len(); j++ {
							ts = append(ts, res.At(j).Type())
						}
						x.resTypes[p.Label] = ts
					}
				}
			}
		}
	}
	return x.resTypes
}

// havocTracked: at a loop head nothing is known about the calls made by earlier iterations.
func (x *Exec) havocTracked(st *State) {
	for _, p := range x.c.Propagates {
		st.ghostV[failedKey(p.Label)] = Const(freshName("loop|failed|"+p.Label), BoolS)
		st.ghostV["called|"+p.Label] = Const(freshName("loop|called|"+p.Label), BoolS)
		nc := Const(freshName("loop|ncalls|"+p.Label), IntS)
		st.assume(Le(IntLit(0), nc))
		st.ghostV["ncalls|"+p.Label] = nc
		for j, t := range x.trackedResultTypes()[p.Label] {
			st.ghostV[fmt.Sprintf("res|%s|%d", p.Label, j)] = st.fresh(t, "loop|res|"+p.Label)
		}
	}
}


// checkSpawn: the precondition of a function started by a go statement must hold where it is started (the spawned
// function itself is verified separately against its contract; nothing else about the new goroutine is modelled).
func (x *Exec) checkSpawn(fr *Frame, st *State, g *ssa.Go) {
	cc := g.Common()
	if cc.IsInvoke() {
		return
	}
	var fn *ssa.Function
	var bind []Value
	switch v := x.val(fr, st, cc.Value).(type) {
	case ClosureV:
		fn, bind = v.Fn, v.Bind
	default:
		return
	}
	c := x.eng.cs.Funcs[x.eng.fnKey[fn]]
	if c == nil || len(c.Requires) == 0 {
		return
	}
	var args []Value
	for _, a := range cc.Args {
		args = append(args, x.val(fr, st, a))
	}
	env := x.contractEnv(st, c, fn.Signature, args)
	for i, fv := range fn.FreeVars {
		if i >= len(bind) {
			break
		}
		et := fv.Type().(*types.Pointer).Elem()
		env.vars[fv.Name()] = tv{x.fnTerm(st, st.load(bind[i], et)), et}
	}
	ord := x.ordinal(fr.fn, g, "call")
	for _, r := range c.Requires {
		goal := x.evalClause(env, c, "requires "+r.Label, r.Expr)
		x.check(st, fmt.Sprintf("%sspawn.pre.%s.%s@%d", fr.prefix, calleeShort(c.Key), r.Label, ord), goal, g.Pos())
	}
}


// checkCallsites: `callsite <callee> requires "label" expr` - the expression must hold in the state in which the
// function under contract calls <callee> (ordering facts a postcondition cannot state).
func (x *Exec) checkCallsites(fr *Frame, st *State, call *ssa.Call) {
	if x.c == nil || len(x.c.Callsites) == 0 || fr.fn != x.fn {
		return
	}
	names := calleeNames(call.Common())
	for _, cs := range x.c.Callsites {
		hit := false
		for _, n := range names {
			if n == cs.Callee {
				hit = true
			}
		}
		if !hit {
			continue
		}
		env := &Env{eng: x.eng, st: st, vars: map[string]tv{}, pkg: x.eng.typesPkg(x.c.Pkg), old: heapSnap{}, oldTop: st.top0}
		for n, v := range x.params {
			env.vars[n] = v
		}
		x.localsEnv(fr, st, env, nil) // named locals, as in loop invariants
		// the actual arguments of this call: arg0, arg1, ... (and recv for a method called through an interface)
		cc := call.Common()
		for i, a := range cc.Args {
			env.vars[fmt.Sprintf("arg%d", i)] = tv{x.val(fr, st, a), a.Type()}
		}
		if cc.IsInvoke() {
			env.vars["recv"] = tv{x.val(fr, st, cc.Value), cc.Value.Type()}
		}
		g := x.evalClause(env, x.c, "callsite "+cs.Callee+" "+cs.Label, cs.Expr)
		n0 := len(x.obls)
		x.check(st, fmt.Sprintf("%scallsite.%s.%s@%d", fr.prefix, cs.Callee, cs.Label, x.ordinal(fr.fn, call, "call")), g, call.Pos())
		if len(cs.Props) > 0 {
			for _, o := range x.obls[n0:] {
				o.Props = cs.Props
			}
		}
	}
}


// trackRecv: `propagates recv` - an error value received from a channel in a select counts as a failed call of the
// pseudo-callee "recv" (the error a background goroutine reported must not be dropped by the receiver).
func (x *Exec) trackRecv(fr *Frame, st *State, n *ssa.Select, out TupleV) {
	if x.c == nil || fr.fn != x.fn {
		return
	}
	tracked := false
	for _, p := range x.c.Propagates {
		if p.Label == "recv" {
			tracked = true
		}
	}
	if !tracked {
		return
	}
	idx := out[0].(*Term)
	k := 2
	for i, s := range n.States {
		if s.Dir != types.RecvOnly {
			continue
		}
		v := out[k]
		k++
		ev, ok := v.(IfaceV)
		if !ok || !types.Identical(s.Chan.Type().Underlying().(*types.Chan).Elem(), types.Universe.Lookup("error").Type()) {
			continue
		}
		cond := And(Eq(idx, IntLit(int64(i))), Not(And(Eq(ev.Tag, IntLit(0)), Eq(ev.Val, IntLit(0)))))
		cur, _ := st.ghostV[failedKey("recv")].(*Term)
		if cur == nil {
			cur = False
		}
		st.ghostV[failedKey("recv")] = Or(cur, cond)
	}
}
