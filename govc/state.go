package main

// Symbolic state: path condition, cells, registers, heap arrays.

import (
	"fmt"
	"go/types"
	"sort"
	"strings"

	"golang.org/x/tools/go/ssa"
)

var freshCounter int

func freshName(hint string) string {
	freshCounter++
	return fmt.Sprintf("%s!%d", hint, freshCounter)
}

type deferred struct {
	call  *ssa.CallCommon
	instr ssa.Instruction
	fn    Value
	args  []Value
}

type loopFrame struct {
	hdr  *ssa.BasicBlock
	decr *Term // value of the decreases measure at the loop head
	// loop-level modifies clause: the arrays it restricts, their values at the loop head (after the
	// havoc) and the addresses the body may change; checked at the back edge
	modHead    map[string]*Term
	modAllowed map[string][]*Term
	modTop     *Term
}

type State struct {
	pc      []*Term
	pcKeys  map[string]bool
	cells   map[*Cell]Value
	heap    map[string]*Term // array name -> current array term
	heaptop *Term            // current allocation frontier
	top0    *Term            // frontier at function entry
	nalloc  int64
	topBase *Term // base constant of the current frontier (before own allocations)
	ncell   int
	clos    map[string]ClosureV // function values known by term key
	ghostV  map[string]Value    // ghost locals (range rule etc.)
	known   map[string]int64    // integer terms known to equal a literal on this path (dynamic type tags)
	dead    bool
}

func newState() *State {
	top := Const("heaptop", IntS)
	st := &State{pcKeys: map[string]bool{}, cells: map[*Cell]Value{}, heap: map[string]*Term{}, clos: map[string]ClosureV{}, ghostV: map[string]Value{}, known: map[string]int64{}}
	st.heaptop, st.top0, st.topBase = top, top, top
	st.assume(Le(IntLit(1), top))
	return st
}

func (st *State) clone() *State {
	n := *st
	n.pc = append([]*Term(nil), st.pc...)
	n.pcKeys = make(map[string]bool, len(st.pcKeys))
	for k := range st.pcKeys {
		n.pcKeys[k] = true
	}
	n.cells = make(map[*Cell]Value, len(st.cells))
	for k, v := range st.cells {
		n.cells[k] = v
	}
	n.heap = make(map[string]*Term, len(st.heap))
	for k, v := range st.heap {
		n.heap[k] = v
	}
	n.clos = make(map[string]ClosureV, len(st.clos))
	for k, v := range st.clos {
		n.clos[k] = v
	}
	n.known = make(map[string]int64, len(st.known))
	for k, v := range st.known {
		n.known[k] = v
	}
	n.ghostV = make(map[string]Value, len(st.ghostV))
	for k, v := range st.ghostV {
		n.ghostV[k] = v
	}
	return &n
}

func (st *State) assume(t *Term) {
	if t.IsTrue() {
		return
	}
	if t.Op == "and" {
		for _, a := range t.Args {
			st.assume(a)
		}
		return
	}
	if t.IsFalse() {
		st.dead = true
	}
	if t.Op == "=" && len(t.Args) == 2 && t.Args[0].Sort.Kind == SInt {
		a, b := t.Args[0], t.Args[1]
		if a.IsInt() {
			a, b = b, a
		}
		if b.IsInt() && !a.IsInt() && b.Int.IsInt64() {
			st.known[a.Key()] = b.Int.Int64()
		}
	}
	k := t.Key()
	if st.pcKeys[k] {
		return
	}
	st.pcKeys[k] = true
	st.pc = append(st.pc, t)
}

func (st *State) assumeAll(ts []*Term) {
	for _, t := range ts {
		st.assume(t)
	}
}

// ---- heap arrays ----

type heapSnap map[string]*Term

func (st *State) snapshot() heapSnap {
	m := make(heapSnap, len(st.heap))
	for k, v := range st.heap {
		m[k] = v
	}
	return m
}

// arrSorts remembers the sort of each named heap array.
var arrSorts = map[string]*Sort{}

func heapArr(h map[string]*Term, name string, s *Sort) *Term {
	if a, ok := h[name]; ok {
		return a
	}
	if old, ok := arrSorts[name]; ok && !sameSort(old, s) {
		panic("heap array " + name + " used at two sorts: " + old.String() + " / " + s.String())
	}
	arrSorts[name] = s
	return Const(name, s) // the value at function entry
}

func registerArrSort(name string, s *Sort) {
	if _, ok := arrSorts[name]; !ok {
		arrSorts[name] = s
	}
}

func (st *State) arr(name string, s *Sort) *Term { return heapArr(st.heap, name, s) }

func (st *State) setArr(name string, t *Term) {
	if t.Op != "const" && t.Op != "def" {
		t = Def(freshName(name), t)
	}
	st.heap[name] = t
}

func fieldArrName(owner *types.Named, field string, suffix string) string {
	return "F|" + typeStr(owner) + "|" + field + suffix
}
func elemArrName(elem types.Type, suffix string) string { return "E|" + typeStr(elem) + suffix }
func ptrArrName(t types.Type, suffix string) string     { return "P|" + typeStr(t) + suffix }

// ---- allocation ----

func (st *State) alloc() *Term {
	st.nalloc++
	id := Add(st.topBase, IntLit(st.nalloc))
	st.heaptop = id
	return id
}

// bumpTop models allocation by a callee: the frontier moves to a fresh, larger constant.
func (st *State) bumpTop() {
	nt := Const(freshName("heaptop"), IntS)
	st.assume(Le(st.heaptop, nt))
	st.heaptop, st.topBase, st.nalloc = nt, nt, 0
}

func namedOf(t types.Type) *types.Named {
	t = types.Unalias(t)
	if n, ok := t.(*types.Named); ok {
		return n
	}
	return nil
}

// embAddr is the address of by-value struct field idx inside object obj.
func embAddr(owner *types.Named, idx int, obj *Term) *Term {
	// The embedded value's own cells live in arrays named after its own type (or, for
	// sync.Map, after the owning field), so the owner's address can serve as its address
	// unless an earlier field of the same struct has the identical type.
	s := structOf(owner)
	ft := s.Field(idx).Type()
	for j := 0; j < idx; j++ {
		if types.Identical(s.Field(j).Type(), ft) {
			// a concrete injective encoding into the negative numbers (no real object lives there)
			return Sub(IntLit(0), Add(Mul(IntLit(64), obj), IntLit(int64(idx))))
		}
	}
	return obj
}

func structOf(t types.Type) *types.Struct {
	s, _ := types.Unalias(t).Underlying().(*types.Struct)
	return s
}

func isPlainStruct(t types.Type) bool {
	return structOf(t) != nil && !isOpaqueStruct(t) && !isTime(t)
}

// readField reads field idx of heap object obj (of named struct type owner) from heap h.
func readField(h map[string]*Term, owner *types.Named, idx int, obj *Term) Value {
	s := structOf(owner)
	f := s.Field(idx)
	if isPlainStruct(f.Type()) {
		return readStruct(h, f.Type(), embAddr(owner, idx, obj))
	}
	if isOpaqueStruct(f.Type()) {
		return StructV{T: f.Type()}
	}
	cs := comps(f.Type())
	ts := make([]*Term, len(cs))
	for i, c := range cs {
		ts[i] = Select(heapArr(h, fieldArrName(owner, f.Name(), c.suffix), ArrayS(IntS, c.sort)), obj)
	}
	v, _ := fromComps(f.Type(), ts)
	return v
}

func readStruct(h map[string]*Term, t types.Type, obj *Term) Value {
	n := namedOf(t)
	if n == nil {
		panic("readStruct: anonymous struct type " + t.String())
	}
	s := structOf(t)
	sv := StructV{T: t}
	for i := 0; i < s.NumFields(); i++ {
		sv.F = append(sv.F, readField(h, n, i, obj))
	}
	return sv
}

func (st *State) writeField(owner *types.Named, idx int, obj *Term, v Value) {
	s := structOf(owner)
	f := s.Field(idx)
	if isPlainStruct(f.Type()) {
		st.writeStruct(f.Type(), embAddr(owner, idx, obj), v)
		return
	}
	if isOpaqueStruct(f.Type()) {
		return
	}
	cs := comps(f.Type())
	ts := toComps(f.Type(), v)
	for i, c := range cs {
		name := fieldArrName(owner, f.Name(), c.suffix)
		st.setArr(name, Store(st.arr(name, ArrayS(IntS, c.sort)), obj, ts[i]))
	}
}

func (st *State) writeStruct(t types.Type, obj *Term, v Value) {
	n := namedOf(t)
	s := structOf(t)
	sv, ok := v.(StructV)
	if !ok {
		panic(fmt.Sprintf("writeStruct: %T is not a struct value", v))
	}
	for i := 0; i < s.NumFields(); i++ {
		st.writeField(n, i, obj, sv.F[i])
	}
}

func readElem(h map[string]*Term, elem types.Type, ref, idx *Term) Value {
	cs := comps(elem)
	ts := make([]*Term, len(cs))
	for i, c := range cs {
		a := heapArr(h, elemArrName(elem, c.suffix), ArrayS(IntS, ArrayS(IntS, c.sort)))
		ts[i] = Select(Select(a, ref), idx)
	}
	v, _ := fromComps(elem, ts)
	return v
}

func (st *State) writeElem(elem types.Type, ref, idx *Term, v Value) {
	cs := comps(elem)
	ts := toComps(elem, v)
	for i, c := range cs {
		name := elemArrName(elem, c.suffix)
		a := st.arr(name, ArrayS(IntS, ArrayS(IntS, c.sort)))
		st.setArr(name, Store(a, ref, Store(Select(a, ref), idx, ts[i])))
	}
}

func readPtr(h map[string]*Term, t types.Type, p *Term) Value {
	cs := comps(t)
	ts := make([]*Term, len(cs))
	for i, c := range cs {
		ts[i] = Select(heapArr(h, ptrArrName(t, c.suffix), ArrayS(IntS, c.sort)), p)
	}
	v, _ := fromComps(t, ts)
	return v
}

func (st *State) writePtr(t types.Type, p *Term, v Value) {
	cs := comps(t)
	ts := toComps(t, v)
	for i, c := range cs {
		name := ptrArrName(t, c.suffix)
		st.setArr(name, Store(st.arr(name, ArrayS(IntS, c.sort)), p, ts[i]))
	}
}

// load reads a value of type t through pointer value p.
func (st *State) load(p Value, t types.Type) Value {
	var v Value
	switch x := p.(type) {
	case CellPtr:
		v = st.cells[x.C]
		for _, i := range x.Path {
			v = v.(StructV).F[i]
		}
		return v
	case FieldPtr:
		v = readField(st.heap, x.Owner, x.Idx, x.Obj)
	case ElemPtr:
		v = readElem(st.heap, x.Elem, x.Ref, x.Idx)
		for _, i := range x.Path {
			v = v.(StructV).F[i]
		}
	case *Term:
		if isPlainStruct(t) {
			v = readStruct(st.heap, t, x)
		} else {
			v = readPtr(st.heap, t, x)
		}
	default:
		panic(fmt.Sprintf("load through %T", p))
	}
	st.assumeAll(typeFacts(t, v, st.heaptop))
	return v
}

func setPath(v Value, path []int, nv Value) Value {
	if len(path) == 0 {
		return nv
	}
	sv := v.(StructV)
	nf := append([]Value(nil), sv.F...)
	nf[path[0]] = setPath(sv.F[path[0]], path[1:], nv)
	return StructV{T: sv.T, F: nf}
}

func (st *State) store(p Value, t types.Type, v Value) {
	switch x := p.(type) {
	case CellPtr:
		st.cells[x.C] = setPath(st.cells[x.C], x.Path, v)
	case FieldPtr:
		st.writeField(x.Owner, x.Idx, x.Obj, v)
	case ElemPtr:
		if len(x.Path) > 0 {
			cur := readElem(st.heap, x.Elem, x.Ref, x.Idx)
			v = setPath(cur, x.Path, v)
		}
		st.writeElem(x.Elem, x.Ref, x.Idx, v)
	case *Term:
		if isPlainStruct(t) {
			st.writeStruct(t, x, v)
		} else {
			st.writePtr(t, x, v)
		}
	default:
		panic(fmt.Sprintf("store through %T", p))
	}
}

// fresh makes an unconstrained symbolic value of type t (with type facts assumed).
func (st *State) fresh(t types.Type, hint string) Value {
	cs := comps(t)
	ts := make([]*Term, len(cs))
	for i, c := range cs {
		ts[i] = Const(freshName(hint+c.suffix), c.sort)
		constTop[ts[i].Name] = st.heaptop
	}
	v, _ := fromComps(t, ts)
	st.assumeAll(typeFacts(t, v, st.heaptop))
	return v
}

// ---- obligations ----

type Obligation struct {
	Fn     string // function under contract
	Kind   string // e.g. post.range, nopanic.index@3
	Props  []string
	PC     []*Term
	Goal   *Term
	Pos    string
	PathID int
	Cover  bool // expected sat
	PC0    []*Term // consistency guard (Kind consistent.*): the path condition before the contract's clauses were evaluated
	Inputs []*Term
}

func (o *Obligation) Name() string { return o.Fn + ":" + o.Kind }

func sortedKeys[V any](m map[string]V) []string {
	ks := make([]string, 0, len(m))
	for k := range m {
		ks = append(ks, k)
	}
	sort.Strings(ks)
	return ks
}

func joinTerms(ts []*Term, sep string) string {
	ss := make([]string, len(ts))
	for i, t := range ts {
		ss[i] = t.String()
	}
	return strings.Join(ss, sep)
}
