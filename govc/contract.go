package main

// Contract files: //@ directives in <pkg>/contracts_verif.go (build tag verif).

import (
	"regexp"
	"fmt"
	"go/ast"
	"go/parser"
	"go/token"
	"os"
	"path/filepath"
	"strconv"
	"strings"
)

type Clause struct {
	Label string
	Expr  ast.Expr
	Src   string
	Props []string // optional per-clause property override
}

type LoopSpec struct {
	Inv      []Clause
	Decr     ast.Expr
	Unroll   int
	Modifies []ast.Expr
}

// GhostAssign: `range n ghost name K->V keyExpr := valExpr` - a witness array updated at the start of each
// iteration (name[keyExpr] := valExpr, both evaluated in the state the iteration starts in).
type GhostAssign struct {
	Name   string
	KeyT   string
	ValT   string
	Key    ast.Expr
	Val    ast.Expr
}

type RangeSpec struct {
	Ghosts  []GhostAssign
	Over    ast.Expr
	Visited string
	Key     string // name bound to the current key in invariants (optional)
	Inv     []Clause
	OnBreak []Clause
	Uses    []Clause
}

type CallsiteSpec struct {
	Callee string
	Label  string
	Expr   ast.Expr
	Src    string
	Props  []string
}

type Contract struct {
	Pkg       string // package path
	SpecPkg   string // package whose scope contract expressions are resolved in (extern)
	Key       string // pkgpath.(Recv).Name or pkgpath.Name
	RecvName  string
	RecvType  string // as written, e.g. *Bytes
	Name      string
	Params    []string
	Results   []string
	FuncType  *ast.FuncType
	Props     []string
	Requires  []Clause
	Ensures   []Clause
	Modifies  []ast.Expr
	NoPanic   bool
	MayPanic  string
	Inline    bool
	Assumed   string
	Pure      bool
	Determ    bool
	NoWorld   bool
	DetArgs   []string // parameters (by name; receiver = self or its name) the deterministic results depend on; nil = all
	Loops     map[int]*LoopSpec
	Ranges    map[int]*RangeSpec
	Callsites []CallsiteSpec
	Uses      []Clause
	Opaque    map[string][]string // callee name -> ensures labels kept at its call sites
	Dispatch  map[string][]string // interface type -> concrete types to split dynamic calls on
	Decreases ast.Expr
	// propagates <callee> [unless <pred(e)>]: whenever a call of <callee> made by this function returns a non-nil
	// error e (not excused by the predicate), this function returns a non-nil error. Label = callee name.
	Propagates []Clause
	TrackOnly  map[string]bool // `tracks <callee>`: the failed() flag is maintained, no obligation is emitted
	Iface     bool
	Src       string
	Line      int
}

type Macro struct {
	Pkg    string
	Name   string
	Params []string
	PTypes []ast.Expr
	Body   ast.Expr
}

type Lemma struct {
	Pkg    string
	Name   string
	Params []string
	PTypes []ast.Expr
	Body   ast.Expr
}

type TypeInv struct {
	Pkg  string
	Type string
	Var  string
	Expr ast.Expr
}

type Lacks struct {
	Pkg    string
	Type   string
	Ifaces []string
	Props  []string
}

type SyncMapSpec struct {
	Pkg   string
	Field string // Type.field
	Key   string
	Val   string
	Props []string // properties whose checks require every writer of the map to be under contract
}

type ContractSet struct {
	Funcs    map[string]*Contract
	Macros   map[string]*Macro // by pkg-qualified and bare name
	Lemmas   []*Lemma
	TypeInvs map[string]*TypeInv // pkgpath.Type
	Lacks    []*Lacks
	SyncMaps map[string]*SyncMapSpec // pkgpath.Type.field
	Files    []string
}

func newContractSet() *ContractSet {
	return &ContractSet{Funcs: map[string]*Contract{}, Macros: map[string]*Macro{}, TypeInvs: map[string]*TypeInv{}, SyncMaps: map[string]*SyncMapSpec{}}
}

var clauseKeywords = map[string]bool{
	"func": true, "interface": true, "extern": true, "type": true, "ghost": true, "spec": true, "lemma": true, "syncmap": true,
	"props": true, "requires": true, "ensures": true, "modifies": true, "nopanic": true, "maypanic": true,
	"inline": true, "assumed": true, "pure": true, "use": true, "deterministic": true, "noworld": true, "opaque": true, "dispatch": true, "detargs": true, "loop": true, "range": true, "callsite": true, "decreases": true, "propagates": true, "tracks": true,
}

// ghostWitnessDecl: witness arrays declared by `range n ghost` clauses (name -> key type, value type; string or int)
var ghostWitnessDecl = map[string][2]string{}

var closureNameRE = regexp.MustCompile(`(\w)\$(\d)`)
var externMethodRE = regexp.MustCompile(`^([\w./-]+)\.\((\*?\w+)\)\.(\w+)(\(.*)$`)

func firstWord(s string) string {
	s = strings.TrimSpace(s)
	if i := strings.IndexAny(s, " \t("); i >= 0 {
		return s[:i]
	}
	return s
}

// parseContractFile reads the //@ lines of one file.
func (cs *ContractSet) parseFile(path, pkgPath string) error {
	data, err := os.ReadFile(path)
	if err != nil {
		return err
	}
	cs.Files = append(cs.Files, path)
	var lines []string
	var lineNos []int
	for i, l := range strings.Split(string(data), "\n") {
		t := strings.TrimSpace(l)
		if !strings.HasPrefix(t, "//@") {
			continue
		}
		body := strings.TrimPrefix(t, "//@")
		// strip trailing // comment (outside string literals)
		body = stripComment(body)
		if strings.TrimSpace(body) == "" {
			continue
		}
		if len(lines) > 0 && !clauseKeywords[firstWord(body)] {
			lines[len(lines)-1] += " " + strings.TrimSpace(body)
			continue
		}
		lines = append(lines, strings.TrimSpace(body))
		lineNos = append(lineNos, i+1)
	}
	var cur *Contract
	for i, l := range lines {
		where := fmt.Sprintf("%s:%d", filepath.Base(path), lineNos[i])
		kw := firstWord(l)
		rest := strings.TrimSpace(strings.TrimPrefix(l, kw))
		fail := func(e error) error { return fmt.Errorf("%s: %v\n   in: %s", where, e, l) }
		switch kw {
		case "func", "interface", "extern":
			cpkg := pkgPath
			if kw == "extern" {
				// extern <pkgpath>.<Func>(params) (results): assumed contract of a function outside the repository
				if strings.HasPrefix(rest, "interface ") {
					// extern interface <pkgpath>.<Iface>.<Method>(params) (results): assumed contract of a
					// method of an interface declared outside the repository
					r2 := strings.TrimSpace(strings.TrimPrefix(rest, "interface "))
					j := strings.Index(r2, "(")
					if j < 0 {
						return fail(fmt.Errorf("extern interface expects pkgpath.Iface.Method(...)"))
					}
					i2 := strings.LastIndex(r2[:j], ".")
					i1 := strings.LastIndex(r2[:i2], ".")
					if i1 < 0 || i2 < 0 {
						return fail(fmt.Errorf("extern interface expects pkgpath.Iface.Method(...)"))
					}
					c, err := parseFuncLine("interface", r2[i1+1:], r2[:i1])
					if err != nil {
						return fail(err)
					}
					c.Assumed = "external interface method"
					c.SpecPkg = pkgPath
					c.Src, c.Line = path, lineNos[i]
					if _, dup := cs.Funcs[c.Key]; dup {
						return fail(fmt.Errorf("duplicate contract for %s", c.Key))
					}
					cs.Funcs[c.Key] = c
					cur = c
					continue
				}
				if m := externMethodRE.FindStringSubmatch(rest); m != nil {
					// extern <pkgpath>.(*T).Method(params) (results): the receiver is called self
					cpkg, rest = m[1], "(self "+m[2]+") "+m[3]+m[4]
				} else {
					j := strings.Index(rest, "(")
					i := strings.LastIndex(rest[:j], ".")
					if i < 0 {
						return fail(fmt.Errorf("extern expects pkgpath.Func(...)"))
					}
					cpkg, rest = rest[:i], rest[i+1:]
				}
			}
			k2 := kw
			if kw == "extern" {
				k2 = "func"
			}
			c, err := parseFuncLine(k2, rest, cpkg)
			if err == nil && kw == "extern" {
				c.Assumed = "external function"
				c.SpecPkg = pkgPath
			}
			if err != nil {
				return fail(err)
			}
			c.Src, c.Line = path, lineNos[i]
			if _, dup := cs.Funcs[c.Key]; dup {
				return fail(fmt.Errorf("duplicate contract for %s", c.Key))
			}
			cs.Funcs[c.Key] = c
			cur = c
		case "spec", "lemma":
			parts := strings.SplitN(rest, ":=", 2)
			if len(parts) != 2 {
				return fail(fmt.Errorf("expected name(params) := expr"))
			}
			ft, name, err := parseSig("func " + strings.TrimSpace(parts[0]))
			if err != nil {
				return fail(err)
			}
			body, err := parser.ParseExpr(parts[1])
			if err != nil {
				return fail(err)
			}
			var ps []string
			var pts []ast.Expr
			if ft.Params != nil {
				for _, f := range ft.Params.List {
					for _, n := range f.Names {
						ps = append(ps, n.Name)
						pts = append(pts, f.Type)
					}
				}
			}
			if kw == "spec" {
				m := &Macro{Pkg: pkgPath, Name: name, Params: ps, PTypes: pts, Body: body}
				cs.Macros[pkgPath+"."+name] = m
				if _, ok := cs.Macros[name]; !ok {
					cs.Macros[name] = m
				}
			} else {
				cs.Lemmas = append(cs.Lemmas, &Lemma{Pkg: pkgPath, Name: name, Params: ps, PTypes: pts, Body: body})
			}
			cur = nil
		case "type":
			// type T invariant(v) expr | type T lacks I1 I2 ...
			f := strings.Fields(rest)
			if len(f) < 3 {
				return fail(fmt.Errorf("bad type directive"))
			}
			switch {
			case f[1] == "lacks":
				lk := &Lacks{Pkg: pkgPath, Type: f[0]}
				for _, w := range f[2:] {
					if strings.HasPrefix(w, "props=") {
						lk.Props = strings.Split(strings.TrimPrefix(w, "props="), ",")
					} else {
						lk.Ifaces = append(lk.Ifaces, w)
					}
				}
				cs.Lacks = append(cs.Lacks, lk)
			case f[1] == "invariant":
				// type T invariant v: expr
				after := strings.TrimSpace(strings.TrimPrefix(strings.TrimSpace(strings.TrimPrefix(rest, f[0])), "invariant"))
				j := strings.Index(after, ":")
				if j < 0 {
					return fail(fmt.Errorf("expected 'type T invariant v: expr'"))
				}
				e, err := parser.ParseExpr(after[j+1:])
				if err != nil {
					return fail(err)
				}
				cs.TypeInvs[pkgPath+"."+f[0]] = &TypeInv{Pkg: pkgPath, Type: f[0], Var: strings.TrimSpace(after[:j]), Expr: e}
			default:
				return fail(fmt.Errorf("bad type directive"))
			}
			cur = nil
		case "syncmap":
			// syncmap Type.field key K val V
			// syncmap Type.field key K val V [props C01 C02 ...]
			f := strings.Fields(rest)
			if len(f) < 5 || f[1] != "key" || f[3] != "val" || (len(f) > 5 && f[5] != "props") {
				return fail(fmt.Errorf("expected 'syncmap Type.field key K val V [props ...]'"))
			}
			sm := &SyncMapSpec{Pkg: pkgPath, Field: f[0], Key: f[2], Val: f[4]}
			if len(f) > 6 {
				sm.Props = f[6:]
			}
			cs.SyncMaps[pkgPath+"."+f[0]] = sm
			cur = nil
		case "ghost":
			cur = nil
		default:
			if cur == nil {
				return fail(fmt.Errorf("clause outside a func/interface directive"))
			}
			if err := cur.addClause(kw, rest); err != nil {
				return fail(err)
			}
		}
	}
	return nil
}

func stripComment(s string) string {
	inStr := false
	var q byte
	for i := 0; i < len(s); i++ {
		c := s[i]
		if inStr {
			if c == '\\' && q == '"' {
				i++
				continue
			}
			if c == q {
				inStr = false
			}
			continue
		}
		if c == '"' || c == '`' || c == '\'' {
			inStr, q = true, c
			continue
		}
		if c == '/' && i+1 < len(s) && s[i+1] == '/' {
			return s[:i]
		}
	}
	return s
}

func parseSig(line string) (*ast.FuncType, string, error) {
	src := "package p\n" + line + "\n"
	f, err := parser.ParseFile(token.NewFileSet(), "", src, 0)
	if err != nil {
		return nil, "", err
	}
	if len(f.Decls) != 1 {
		return nil, "", fmt.Errorf("expected one declaration")
	}
	fd, ok := f.Decls[0].(*ast.FuncDecl)
	if !ok {
		return nil, "", fmt.Errorf("expected func declaration")
	}
	return fd.Type, fd.Name.Name, nil
}

func exprString(e ast.Expr) string {
	switch x := e.(type) {
	case *ast.Ident:
		return x.Name
	case *ast.StarExpr:
		return "*" + exprString(x.X)
	case *ast.SelectorExpr:
		return exprString(x.X) + "." + x.Sel.Name
	case *ast.ArrayType:
		return "[]" + exprString(x.Elt)
	case *ast.InterfaceType:
		return "interface{}"
	case *ast.Ellipsis:
		return "..." + exprString(x.Elt)
	case *ast.FuncType:
		return "func"
	}
	return fmt.Sprintf("%T", e)
}

func parseFuncLine(kw, rest, pkgPath string) (*Contract, error) {
	c := &Contract{Pkg: pkgPath, Loops: map[int]*LoopSpec{}, Ranges: map[int]*RangeSpec{}}
	// function literals are named as go/ssa names them: outer$1, outer$1$2, ...
	rest = closureNameRE.ReplaceAllString(rest, "${1}_CLOSURE_${2}")
	line := "func " + rest
	if kw == "interface" {
		// interface T.M(params) (results)
		i := strings.Index(rest, ".")
		j := strings.Index(rest, "(")
		if i < 0 || j < 0 || i > j {
			return nil, fmt.Errorf("expected interface Type.Method(...)")
		}
		line = "func (self " + rest[:i] + ") " + rest[i+1:]
		c.Iface = true
	}
	src := "package p\n" + line + "\n"
	f, err := parser.ParseFile(token.NewFileSet(), "", src, 0)
	if err != nil {
		return nil, err
	}
	fd, ok := f.Decls[0].(*ast.FuncDecl)
	if !ok {
		return nil, fmt.Errorf("expected func")
	}
	c.Name = strings.ReplaceAll(fd.Name.Name, "_CLOSURE_", "$")
	c.FuncType = fd.Type
	if fd.Recv != nil && len(fd.Recv.List) == 1 {
		r := fd.Recv.List[0]
		if len(r.Names) == 1 {
			c.RecvName = r.Names[0].Name
		}
		c.RecvType = exprString(r.Type)
	}
	if fd.Type.Params != nil {
		for _, p := range fd.Type.Params.List {
			if len(p.Names) == 0 {
				c.Params = append(c.Params, "_")
			}
			for _, n := range p.Names {
				c.Params = append(c.Params, n.Name)
			}
		}
	}
	if fd.Type.Results != nil {
		for _, p := range fd.Type.Results.List {
			if len(p.Names) == 0 {
				c.Results = append(c.Results, "r"+strconv.Itoa(len(c.Results)))
			}
			for _, n := range p.Names {
				c.Results = append(c.Results, n.Name)
			}
		}
	}
	if c.RecvType != "" {
		c.Key = pkgPath + ".(" + c.RecvType + ")." + c.Name
	} else {
		c.Key = pkgPath + "." + c.Name
	}
	return c, nil
}

func splitLabel(rest string) (label, expr string) {
	rest = strings.TrimSpace(rest)
	if strings.HasPrefix(rest, `"`) {
		if j := strings.Index(rest[1:], `"`); j >= 0 {
			return rest[1 : 1+j], strings.TrimSpace(rest[2+j:])
		}
	}
	return "", rest
}

func (c *Contract) addClause(kw, rest string) error {
	switch kw {
	case "props":
		c.Props = strings.Fields(rest)
	case "requires":
		label, e := splitLabel(rest)
		x, err := parser.ParseExpr(e)
		if err != nil {
			return err
		}
		if label == "" {
			label = "req" + strconv.Itoa(len(c.Requires))
		}
		c.Requires = append(c.Requires, Clause{Label: label, Expr: x, Src: e})
	case "ensures":
		label, e := splitLabel(rest)
		if label == "" {
			return fmt.Errorf("ensures needs a label")
		}
		var props []string
		// optional [C01 C02] after label
		if strings.HasPrefix(e, "[") {
			if j := strings.Index(e, "]"); j > 0 {
				props = strings.Fields(e[1:j])
				e = strings.TrimSpace(e[j+1:])
			}
		}
		x, err := parser.ParseExpr(e)
		if err != nil {
			return err
		}
		c.Ensures = append(c.Ensures, Clause{Label: label, Expr: x, Src: e, Props: props})
	case "propagates", "tracks":
		e := rest
		var props []string
		if strings.HasPrefix(e, "[") {
			if j := strings.Index(e, "]"); j > 0 {
				props = strings.Fields(e[1:j])
				e = strings.TrimSpace(e[j+1:])
			}
		}
		f := strings.Fields(e)
		if len(f) == 0 {
			return fmt.Errorf("propagates needs a callee name")
		}
		cl := Clause{Label: f[0], Props: props, Src: e}
		if len(f) > 1 {
			if f[1] != "unless" {
				return fmt.Errorf("expected: propagates <callee> [unless <predicate over e>]")
			}
			u := strings.TrimSpace(strings.TrimPrefix(strings.TrimSpace(strings.TrimPrefix(e, f[0])), "unless"))
			x, err := parser.ParseExpr(u)
			if err != nil {
				return err
			}
			cl.Expr = x
		}
		c.Propagates = append(c.Propagates, cl)
		if kw == "tracks" {
			if c.TrackOnly == nil {
				c.TrackOnly = map[string]bool{}
			}
			c.TrackOnly[cl.Label] = true
		}
	case "modifies":
		x, err := parser.ParseExpr("f(" + rest + ")")
		if err != nil {
			return err
		}
		c.Modifies = append(c.Modifies, x.(*ast.CallExpr).Args...)
	case "use":
		x, err := parser.ParseExpr(rest)
		if err != nil {
			return err
		}
		if _, ok := x.(*ast.CallExpr); !ok {
			return fmt.Errorf("use expects a lemma call")
		}
		c.Uses = append(c.Uses, Clause{Label: funName(x.(*ast.CallExpr).Fun), Expr: x, Src: rest})
	case "nopanic":
		c.NoPanic = true
	case "maypanic":
		l, _ := splitLabel(rest)
		c.MayPanic = l
		if l == "" {
			c.MayPanic = "unspecified"
		}
	case "inline":
		c.Inline = true
	case "pure":
		c.Pure = true
	case "deterministic":
		c.Determ = true
	case "noworld":
		c.NoWorld = true
	case "detargs":
		c.DetArgs = strings.Fields(rest)
	case "dispatch":
		// dispatch <Iface> <T1> <T2> ...: calls on a value of static type Iface are split on these dynamic types
		f := strings.Fields(rest)
		if len(f) < 2 {
			return fmt.Errorf("dispatch needs an interface and at least one concrete type")
		}
		if c.Dispatch == nil {
			c.Dispatch = map[string][]string{}
		}
		c.Dispatch[f[0]] = append(c.Dispatch[f[0]], f[1:]...)
	case "opaque":
		// opaque <callee> [keep label ...]: at calls of callee only the listed ensures are assumed
		f := strings.Fields(rest)
		if len(f) == 0 {
			return fmt.Errorf("opaque needs a callee name")
		}
		if c.Opaque == nil {
			c.Opaque = map[string][]string{}
		}
		keep := []string{}
		if len(f) > 2 && f[1] == "keep" {
			keep = f[2:]
		}
		c.Opaque[f[0]] = keep
	case "assumed":
		l, _ := splitLabel(rest)
		c.Assumed = l
		if l == "" {
			c.Assumed = "assumed"
		}
	case "decreases":
		x, err := parser.ParseExpr(rest)
		if err != nil {
			return err
		}
		c.Decreases = x
	case "loop":
		f := strings.Fields(rest)
		if len(f) < 2 {
			return fmt.Errorf("bad loop clause")
		}
		n, err := strconv.Atoi(f[0])
		if err != nil {
			return err
		}
		ls := c.Loops[n]
		if ls == nil {
			ls = &LoopSpec{}
			c.Loops[n] = ls
		}
		body := strings.TrimSpace(strings.TrimPrefix(strings.TrimSpace(strings.TrimPrefix(rest, f[0])), f[1]))
		switch f[1] {
		case "invariant":
			label, e := splitLabel(body)
			x, err := parser.ParseExpr(e)
			if err != nil {
				return err
			}
			if label == "" {
				label = strconv.Itoa(len(ls.Inv))
			}
			ls.Inv = append(ls.Inv, Clause{Label: label, Expr: x, Src: e})
		case "decreases":
			x, err := parser.ParseExpr(body)
			if err != nil {
				return err
			}
			ls.Decr = x
		case "bounded":
			// bounded unroll k
			g := strings.Fields(body)
			if len(g) != 2 || g[0] != "unroll" {
				return fmt.Errorf("expected 'bounded unroll k'")
			}
			k, err := strconv.Atoi(g[1])
			if err != nil {
				return err
			}
			ls.Unroll = k
		case "modifies":
			x, err := parser.ParseExpr("f(" + body + ")")
			if err != nil {
				return err
			}
			ls.Modifies = append(ls.Modifies, x.(*ast.CallExpr).Args...)
		default:
			return fmt.Errorf("bad loop clause kind %q", f[1])
		}
	case "range":
		f := strings.Fields(rest)
		if len(f) < 2 {
			return fmt.Errorf("bad range clause")
		}
		n, err := strconv.Atoi(f[0])
		if err != nil {
			return err
		}
		rs := c.Ranges[n]
		if rs == nil {
			rs = &RangeSpec{}
			c.Ranges[n] = rs
		}
		body := strings.TrimSpace(strings.TrimPrefix(strings.TrimSpace(strings.TrimPrefix(rest, f[0])), f[1]))
		switch f[1] {
		case "ghost":
			// ghost name K->V keyExpr := valExpr
			g := strings.Fields(body)
			if len(g) < 4 || !strings.Contains(g[1], "->") {
				return fmt.Errorf("expected 'range n ghost name K->V keyExpr := valExpr'")
			}
			kv := strings.SplitN(g[1], "->", 2)
			restG := strings.TrimSpace(strings.TrimPrefix(strings.TrimSpace(strings.TrimPrefix(body, g[0])), g[1]))
			parts := strings.SplitN(restG, ":=", 2)
			if len(parts) != 2 {
				return fmt.Errorf("expected 'keyExpr := valExpr'")
			}
			kx, err := parser.ParseExpr(strings.TrimSpace(parts[0]))
			if err != nil {
				return err
			}
			vx, err := parser.ParseExpr(strings.TrimSpace(parts[1]))
			if err != nil {
				return err
			}
			rs.Ghosts = append(rs.Ghosts, GhostAssign{Name: g[0], KeyT: kv[0], ValT: kv[1], Key: kx, Val: vx})
			ghostWitnessDecl[g[0]] = [2]string{kv[0], kv[1]}
		case "over":
			// over <expr> visited V [key k]
			i := strings.Index(body, " visited ")
			if i < 0 {
				return fmt.Errorf("expected 'range n over <map> visited V'")
			}
			x, err := parser.ParseExpr(body[:i])
			if err != nil {
				return err
			}
			rs.Over = x
			g := strings.Fields(body[i+len(" visited "):])
			rs.Visited = g[0]
			if len(g) == 3 && g[1] == "key" {
				rs.Key = g[2]
			}
		case "use":
			x, err := parser.ParseExpr(body)
			if err != nil {
				return err
			}
			if _, ok := x.(*ast.CallExpr); !ok {
				return fmt.Errorf("use expects a lemma call")
			}
			rs.Uses = append(rs.Uses, Clause{Label: funName(x.(*ast.CallExpr).Fun), Expr: x, Src: body})
		case "invariant", "onbreak":
			label, e := splitLabel(body)
			x, err := parser.ParseExpr(e)
			if err != nil {
				return err
			}
			cl := Clause{Label: label, Expr: x, Src: e}
			if f[1] == "invariant" {
				if cl.Label == "" {
					cl.Label = strconv.Itoa(len(rs.Inv))
				}
				rs.Inv = append(rs.Inv, cl)
			} else {
				if cl.Label == "" {
					cl.Label = strconv.Itoa(len(rs.OnBreak))
				}
				rs.OnBreak = append(rs.OnBreak, cl)
			}
		default:
			return fmt.Errorf("bad range clause kind %q", f[1])
		}
	case "callsite":
		// callsite <callee> requires "label" expr
		f := strings.Fields(rest)
		if len(f) < 4 || f[1] != "requires" {
			return fmt.Errorf("expected 'callsite <callee> requires \"label\" expr'")
		}
		body := strings.TrimSpace(strings.TrimPrefix(strings.TrimSpace(strings.TrimPrefix(rest, f[0])), "requires"))
		label, e := splitLabel(body)
		var props []string
		if strings.HasPrefix(e, "[") {
			if j := strings.Index(e, "]"); j > 0 {
				props = strings.Fields(e[1:j])
				e = strings.TrimSpace(e[j+1:])
			}
		}
		x, err := parser.ParseExpr(e)
		if err != nil {
			return err
		}
		c.Callsites = append(c.Callsites, CallsiteSpec{Callee: f[0], Label: label, Expr: x, Src: e, Props: props})
	default:
		return fmt.Errorf("unknown clause %q", kw)
	}
	return nil
}
