package main

// SMT terms: a small typed S-expression language with simplifying constructors.

import (
	"fmt"
	"math/big"
	"sort"
	"strconv"
	"strings"
	"sync"
)

type SortKind int

const (
	SBool SortKind = iota
	SInt
	SString
	SBV
	SArray
	SUninterp
)

type Sort struct {
	Kind SortKind
	Name string // uninterpreted sort name
	W    int    // bit-vector width
	Idx  *Sort // array index
	Elem *Sort // array element
}

var (
	BoolS   = &Sort{Kind: SBool}
	IntS    = &Sort{Kind: SInt}
	StringS = &Sort{Kind: SString}
	StrU    = &Sort{Kind: SUninterp, Name: "Str"}
	ReS     = &Sort{Kind: SUninterp, Name: "RegLan"}
	BV32S   = &Sort{Kind: SBV, W: 32}
	BV64S   = &Sort{Kind: SBV, W: 64}
)

var arraySorts = map[string]*Sort{}
var sortMu sync.Mutex

func ArrayS(idx, elem *Sort) *Sort {
	k := idx.String() + "->" + elem.String()
	sortMu.Lock()
	defer sortMu.Unlock()
	if s, ok := arraySorts[k]; ok {
		return s
	}
	s := &Sort{Kind: SArray, Idx: idx, Elem: elem}
	arraySorts[k] = s
	return s
}

func BVS(w int) *Sort {
	switch w {
	case 32:
		return BV32S
	case 64:
		return BV64S
	}
	k := fmt.Sprintf("bv%d", w)
	sortMu.Lock()
	defer sortMu.Unlock()
	if s, ok := arraySorts[k]; ok {
		return s
	}
	s := &Sort{Kind: SBV, W: w}
	arraySorts[k] = s
	return s
}

func (s *Sort) String() string {
	switch s.Kind {
	case SBool:
		return "Bool"
	case SInt:
		return "Int"
	case SString:
		return "String"
	case SBV:
		return fmt.Sprintf("(_ BitVec %d)", s.W)
	case SArray:
		return "(Array " + s.Idx.String() + " " + s.Elem.String() + ")"
	case SUninterp:
		return s.Name
	}
	return "?"
}

func sameSort(a, b *Sort) bool { return a.String() == b.String() }

// Term kinds (Op):
//
//	"const"  : declared constant Name
//	"def"    : defined constant Name := Args[0]
//	"int"    : integer literal Int
//	"bool"   : boolean literal (Name "true"/"false")
//	"str"    : string literal Str
//	"bv"     : bit-vector literal Int, width Sort.W
//	"var"    : bound variable Name
//	"forall","exists","lambda" : Bound vars, Args[0] body
//	"app"    : uninterpreted function Name applied to Args
//	other    : SMT-LIB operator
type Term struct {
	Op    string
	Name  string
	Args  []*Term
	Sort  *Sort
	Int   *big.Int
	Str   string
	Bound []*Term
	Pat   []*Term // optional :pattern for quantifiers
	key   string
}

var (
	True  = &Term{Op: "bool", Name: "true", Sort: BoolS}
	False = &Term{Op: "bool", Name: "false", Sort: BoolS}
)

func IntLit(i int64) *Term    { return &Term{Op: "int", Int: big.NewInt(i), Sort: IntS} }
func BigLit(i *big.Int) *Term { return &Term{Op: "int", Int: new(big.Int).Set(i), Sort: IntS} }
func StrLit(s string) *Term   { return &Term{Op: "str", Str: s, Sort: StringS} }
func BoolLit(b bool) *Term {
	if b {
		return True
	}
	return False
}
func BVLit(v uint64, w int) *Term {
	return &Term{Op: "bv", Int: new(big.Int).SetUint64(v), Sort: BVS(w)}
}
func Const(name string, s *Sort) *Term { return &Term{Op: "const", Name: name, Sort: s} }
func Var(name string, s *Sort) *Term   { return &Term{Op: "var", Name: name, Sort: s} }
func Def(name string, body *Term) *Term {
	return &Term{Op: "def", Name: name, Sort: body.Sort, Args: []*Term{body}}
}

// App is an uninterpreted function application; the function is declared from its use.
func App(name string, res *Sort, args ...*Term) *Term {
	return &Term{Op: "app", Name: name, Sort: res, Args: args}
}

// SIdx is the position off+i of element i of a slice inside its backing array. It is kept as an
// application of the function sidx (axiomatised as off+i) so that quantified facts about s[i]
// have a stable E-matching trigger; arithmetic normalisation otherwise destroys it.
func SIdx(off, i *Term) *Term {
	if off.IsInt() && (off.Int.Sign() == 0 || i.IsInt()) {
		return Add(off, i)
	}
	return App("sidx", IntS, off, i)
}

func mk(op string, s *Sort, args ...*Term) *Term { return &Term{Op: op, Sort: s, Args: args} }

func (t *Term) IsTrue() bool  { return t.Op == "bool" && t.Name == "true" }
func (t *Term) IsFalse() bool { return t.Op == "bool" && t.Name == "false" }
func (t *Term) IsInt() bool   { return t.Op == "int" }

func mangle(s string) string {
	var b strings.Builder
	for _, r := range s {
		switch {
		case r >= 'a' && r <= 'z', r >= 'A' && r <= 'Z', r >= '0' && r <= '9', r == '_', r == '.', r == '$', r == '#', r == '@', r == '!':
			b.WriteRune(r)
		default:
			fmt.Fprintf(&b, "~%x~", r)
		}
	}
	return "|" + strings.ReplaceAll(b.String(), "|", "~7c~") + "|"
}

func smtString(s string) string {
	var b strings.Builder
	b.WriteByte('"')
	for i := 0; i < len(s); i++ {
		c := s[i]
		switch {
		case c == '"':
			b.WriteString(`""`)
		case c == '\\' || c < 0x20 || c >= 0x7f:
			fmt.Fprintf(&b, "\\u{%x}", c)
		default:
			b.WriteByte(c)
		}
	}
	b.WriteByte('"')
	return b.String()
}

func (t *Term) Key() string {
	if t.key == "" {
		t.key = t.String()
	}
	return t.key
}

func (t *Term) String() string {
	var b strings.Builder
	t.write(&b)
	return b.String()
}

func (t *Term) write(b *strings.Builder) {
	if t.key != "" {
		b.WriteString(t.key)
		return
	}
	switch t.Op {
	case "const", "def", "var":
		b.WriteString(mangle(t.Name))
	case "int":
		if t.Int.Sign() < 0 {
			b.WriteString("(- " + new(big.Int).Neg(t.Int).String() + ")")
		} else {
			b.WriteString(t.Int.String())
		}
	case "bool":
		b.WriteString(t.Name)
	case "str":
		b.WriteString(smtString(t.Str))
	case "bv":
		fmt.Fprintf(b, "(_ bv%s %d)", t.Int.String(), t.Sort.W)
	case "forall", "exists", "lambda":
		b.WriteString("(" + t.Op + " (")
		for _, v := range t.Bound {
			b.WriteString("(" + mangle(v.Name) + " " + v.Sort.String() + ")")
		}
		b.WriteString(") ")
		if len(t.Pat) > 0 {
			b.WriteString("(! ")
		}
		t.Args[0].write(b)
		if len(t.Pat) > 0 {
			b.WriteString(" :pattern (")
			for i, p := range t.Pat {
				if i > 0 {
					b.WriteByte(' ')
				}
				p.write(b)
			}
			b.WriteString("))")
		}
		b.WriteString(")")
	case "app":
		if len(t.Args) == 0 {
			b.WriteString(mangle(t.Name))
			return
		}
		b.WriteString("(" + mangle(t.Name))
		for _, a := range t.Args {
			b.WriteByte(' ')
			a.write(b)
		}
		b.WriteByte(')')
	case "constarray":
		b.WriteString("((as const " + t.Sort.String() + ") ")
		t.Args[0].write(b)
		b.WriteByte(')')
	default:
		b.WriteString("(" + t.Op)
		for _, a := range t.Args {
			b.WriteByte(' ')
			a.write(b)
		}
		b.WriteByte(')')
	}
}

func Eqt(a, b *Term) bool { return a == b || a.Key() == b.Key() }

// ---- boolean constructors ----

func Not(a *Term) *Term {
	switch {
	case a.IsTrue():
		return False
	case a.IsFalse():
		return True
	case a.Op == "not":
		return a.Args[0]
	}
	return mk("not", BoolS, a)
}

func And(as ...*Term) *Term {
	var out []*Term
	for _, a := range as {
		if a.IsFalse() {
			return False
		}
		if a.IsTrue() {
			continue
		}
		if a.Op == "and" {
			out = append(out, a.Args...)
			continue
		}
		out = append(out, a)
	}
	switch len(out) {
	case 0:
		return True
	case 1:
		return out[0]
	}
	return mk("and", BoolS, out...)
}

func Or(as ...*Term) *Term {
	var out []*Term
	for _, a := range as {
		if a.IsTrue() {
			return True
		}
		if a.IsFalse() {
			continue
		}
		if a.Op == "or" {
			out = append(out, a.Args...)
			continue
		}
		out = append(out, a)
	}
	switch len(out) {
	case 0:
		return False
	case 1:
		return out[0]
	}
	return mk("or", BoolS, out...)
}

func Implies(a, b *Term) *Term {
	switch {
	case a.IsTrue():
		return b
	case a.IsFalse(), b.IsTrue():
		return True
	case b.IsFalse():
		return Not(a)
	}
	return mk("=>", BoolS, a, b)
}

func Iff(a, b *Term) *Term { return Eq(a, b) }

func Ite(c, a, b *Term) *Term {
	switch {
	case c.IsTrue():
		return a
	case c.IsFalse():
		return b
	case Eqt(a, b):
		return a
	}
	if a.Sort.Kind == SBool {
		if a.IsTrue() && b.IsFalse() {
			return c
		}
		if a.IsFalse() && b.IsTrue() {
			return Not(c)
		}
	}
	return mk("ite", a.Sort, c, a, b)
}

// allocInfo recognises (+ base k) terms produced by fresh allocations.
func allocInfo(t *Term) (base string, k int64, ok bool) {
	base, k, ok = offsetInfo(t)
	if ok && !strings.HasPrefix(base, "heaptop") {
		// an integer such as rangeindex + 1 has the same shape as an allocation address but is not one:
		// it may well be zero (this once made `i == 0` in a range loop a dead branch)
		return "", 0, false
	}
	return
}

// offsetInfo: a term of the shape (constant + literal).
func offsetInfo(t *Term) (base string, k int64, ok bool) {
	if t.Op == "+" && len(t.Args) == 2 && t.Args[1].IsInt() && (t.Args[0].Op == "const" || t.Args[0].Op == "def") {
		return t.Args[0].Name, t.Args[1].Int.Int64(), true
	}
	return "", 0, false
}

// knownDistinct is a cheap syntactic disequality test.
func knownDistinct(a, b *Term) bool {
	if a.Op == "int" && b.Op == "int" {
		return a.Int.Cmp(b.Int) != 0
	}
	if a.Op == "str" && b.Op == "str" {
		return a.Str != b.Str
	}
	if a.Op == "bv" && b.Op == "bv" {
		return a.Int.Cmp(b.Int) != 0
	}
	if a.Op == "bool" && b.Op == "bool" {
		return a.Name != b.Name
	}
	if oa, ia, ok1 := offsetInfo(a); ok1 {
		if ob, ib, ok2 := offsetInfo(b); ok2 && oa == ob {
			return ia != ib // x + i vs x + j
		}
	}
	ba, ka, oka := allocInfo(a)
	bb, kb, okb := allocInfo(b)
	if oka && okb && ka >= 1 && kb >= 1 && strings.HasPrefix(ba, "heaptop") && strings.HasPrefix(bb, "heaptop") {
		// different frontiers on one path: the later frontier lies above every earlier allocation
		return true
	}
	// a fresh allocation (+ top k), k >= 1, never equals nil
	if oka && ka >= 1 && b.Op == "int" && b.Int.Sign() == 0 {
		return true
	}
	if okb && kb >= 1 && a.Op == "int" && a.Int.Sign() == 0 {
		return true
	}
	return false
}

func Eq(a, b *Term) *Term {
	if !sameSort(a.Sort, b.Sort) {
		panic(fmt.Sprintf("Eq: sort mismatch %s : %s vs %s : %s", a, a.Sort, b, b.Sort))
	}
	if Eqt(a, b) {
		return True
	}
	if knownDistinct(a, b) {
		return False
	}
	if a.Sort.Kind == SBool {
		if a.IsTrue() {
			return b
		}
		if b.IsTrue() {
			return a
		}
		if a.IsFalse() {
			return Not(b)
		}
		if b.IsFalse() {
			return Not(a)
		}
	}
	return mk("=", BoolS, a, b)
}

func Neq(a, b *Term) *Term { return Not(Eq(a, b)) }

// ---- integer constructors ----

func Add(a, b *Term) *Term {
	if a.IsInt() && b.IsInt() {
		return BigLit(new(big.Int).Add(a.Int, b.Int))
	}
	if a.IsInt() && a.Int.Sign() == 0 {
		return b
	}
	if b.IsInt() && b.Int.Sign() == 0 {
		return a
	}
	// (x + c1) + c2
	if b.IsInt() && a.Op == "+" && len(a.Args) == 2 && a.Args[1].IsInt() {
		return Add(a.Args[0], BigLit(new(big.Int).Add(a.Args[1].Int, b.Int)))
	}
	if a.IsInt() && !b.IsInt() {
		return Add(b, a)
	}
	return mk("+", IntS, a, b)
}

func Sub(a, b *Term) *Term {
	if a.IsInt() && b.IsInt() {
		return BigLit(new(big.Int).Sub(a.Int, b.Int))
	}
	if b.IsInt() {
		return Add(a, BigLit(new(big.Int).Neg(b.Int)))
	}
	if Eqt(a, b) {
		return IntLit(0)
	}
	return mk("-", IntS, a, b)
}

func Mul(a, b *Term) *Term {
	if a.IsInt() && b.IsInt() {
		return BigLit(new(big.Int).Mul(a.Int, b.Int))
	}
	return mk("*", IntS, a, b)
}

func Neg(a *Term) *Term { return Sub(IntLit(0), a) }

func cmpLit(op string, a, b *Term) (*Term, bool) {
	if a.IsInt() && b.IsInt() {
		c := a.Int.Cmp(b.Int)
		switch op {
		case "<":
			return BoolLit(c < 0), true
		case "<=":
			return BoolLit(c <= 0), true
		case ">":
			return BoolLit(c > 0), true
		case ">=":
			return BoolLit(c >= 0), true
		}
	}
	return nil, false
}

func Lt(a, b *Term) *Term {
	if r, ok := cmpLit("<", a, b); ok {
		return r
	}
	return mk("<", BoolS, a, b)
}
func Le(a, b *Term) *Term {
	if r, ok := cmpLit("<=", a, b); ok {
		return r
	}
	if Eqt(a, b) {
		return True
	}
	return mk("<=", BoolS, a, b)
}
func Gt(a, b *Term) *Term { return Lt(b, a) }
func Ge(a, b *Term) *Term { return Le(b, a) }

func Min(a, b *Term) *Term { return Ite(Le(a, b), a, b) }
func Max(a, b *Term) *Term { return Ite(Le(a, b), b, a) }

// ---- arrays ----

// resolve looks through definitions.
func resolve(t *Term) *Term {
	for t.Op == "def" {
		t = t.Args[0]
	}
	return t
}

func Select(arr, idx *Term) *Term {
	if arr.Sort.Kind != SArray {
		panic("Select on non-array " + arr.String())
	}
	a := arr
	for {
		r := resolve(a)
		switch r.Op {
		case "store":
			if Eqt(r.Args[1], idx) {
				return r.Args[2]
			}
			if knownDistinct(r.Args[1], idx) {
				a = r.Args[0]
				continue
			}
		case "constarray":
			return r.Args[0]
		}
		break
	}
	return mk("select", arr.Sort.Elem, a, idx)
}

func Store(arr, idx, val *Term) *Term {
	if !sameSort(arr.Sort.Elem, val.Sort) {
		panic(fmt.Sprintf("Store: sort mismatch: array %s elem %s, value %s : %s", arr, arr.Sort.Elem, val, val.Sort))
	}
	return mk("store", arr.Sort, arr, idx, val)
}

func ConstArray(s *Sort, v *Term) *Term { return &Term{Op: "constarray", Sort: s, Args: []*Term{v}} }

// ---- strings ----

func StrLen(a *Term) *Term {
	if a.Op == "str" {
		return IntLit(int64(len(a.Str)))
	}
	return mk("str.len", IntS, a)
}

func StrConcat(as ...*Term) *Term {
	var out []*Term
	for _, a := range as {
		if a.Op == "str" && a.Str == "" {
			continue
		}
		if a.Op == "str" && len(out) > 0 && out[len(out)-1].Op == "str" {
			out[len(out)-1] = StrLit(out[len(out)-1].Str + a.Str)
			continue
		}
		if a.Op == "str.++" {
			out = append(out, a.Args...)
			continue
		}
		out = append(out, a)
	}
	switch len(out) {
	case 0:
		return StrLit("")
	case 1:
		return out[0]
	}
	return mk("str.++", StringS, out...)
}

func StrPrefixOf(p, s *Term) *Term {
	if p.Op == "str" && s.Op == "str" {
		return BoolLit(strings.HasPrefix(s.Str, p.Str))
	}
	if p.Op == "str" && p.Str == "" {
		return True
	}
	return mk("str.prefixof", BoolS, p, s)
}
func StrSuffixOf(p, s *Term) *Term {
	if p.Op == "str" && s.Op == "str" {
		return BoolLit(strings.HasSuffix(s.Str, p.Str))
	}
	if p.Op == "str" && p.Str == "" {
		return True
	}
	return mk("str.suffixof", BoolS, p, s)
}
func StrContains(s, sub *Term) *Term {
	if sub.Op == "str" && s.Op == "str" {
		return BoolLit(strings.Contains(s.Str, sub.Str))
	}
	return mk("str.contains", BoolS, s, sub)
}
func StrSubstr(s, off, n *Term) *Term { return mk("str.substr", StringS, s, off, n) }
func StrAt(s, i *Term) *Term          { return mk("str.at", StringS, s, i) }

// ---- bit-vectors ----

func BVOp(op string, a, b *Term) *Term {
	if a.Op == "bv" && b.Op == "bv" {
		x, y := a.Int.Uint64(), b.Int.Uint64()
		var r uint64
		ok := true
		switch op {
		case "bvand":
			r = x & y
		case "bvor":
			r = x | y
		case "bvxor":
			r = x ^ y
		default:
			ok = false
		}
		if ok {
			if a.Sort.W < 64 {
				r &= (1 << uint(a.Sort.W)) - 1
			}
			return BVLit(r, a.Sort.W)
		}
	}
	return mk(op, a.Sort, a, b)
}

func BVNot(a *Term) *Term {
	if a.Op == "bv" {
		r := ^a.Int.Uint64()
		if a.Sort.W < 64 {
			r &= (1 << uint(a.Sort.W)) - 1
		}
		return BVLit(r, a.Sort.W)
	}
	return mk("bvnot", a.Sort, a)
}

// ---- quantifiers ----

func Forall(vars []*Term, body *Term) *Term {
	if body.IsTrue() {
		return True
	}
	return &Term{Op: "forall", Bound: vars, Args: []*Term{body}, Sort: BoolS}
}
func Exists(vars []*Term, body *Term) *Term {
	if body.IsFalse() {
		return False
	}
	return &Term{Op: "exists", Bound: vars, Args: []*Term{body}, Sort: BoolS}
}
func Lambda(vars []*Term, body *Term) *Term {
	var s *Sort = body.Sort
	for i := len(vars) - 1; i >= 0; i-- {
		s = ArrayS(vars[i].Sort, s)
	}
	return &Term{Op: "lambda", Bound: vars, Args: []*Term{body}, Sort: s}
}

// ---- traversal ----

// collect gathers declared constants, definitions (in dependency order) and
// uninterpreted function signatures reachable from the given terms.
type decls struct {
	consts   map[string]*Sort
	defs     []*Term
	defSeen  map[string]bool
	funcs    map[string]string // name -> "(argsorts) ressort"
	hasLam   bool
	hasQuant bool
	hasStr   bool
	hasStrU  bool
	seen     map[*Term]bool
	strLits  map[string]bool
	intLits  map[int64]bool // small integer literals (candidate type tags)
}

func newDecls() *decls {
	return &decls{consts: map[string]*Sort{}, defSeen: map[string]bool{}, funcs: map[string]string{}, seen: map[*Term]bool{}, strLits: map[string]bool{}, intLits: map[int64]bool{}}
}

func (d *decls) visit(t *Term) {
	if d.seen[t] {
		return
	}
	d.seen[t] = true
	if t.Sort != nil && t.Sort.Kind == SString {
		d.hasStr = true
	}
	switch t.Op {
	case "str":
		d.strLits[t.Str] = true
	case "int":
		if t.Int.IsInt64() {
			if v := t.Int.Int64(); v >= 1 && v < 2000000000 {
				d.intLits[v] = true
			}
		}
	case "const":
		d.consts[t.Name] = t.Sort
		d.noteSort(t.Sort)
		return
	case "def":
		if d.defSeen[t.Name] {
			return
		}
		d.defSeen[t.Name] = true
		d.visit(t.Args[0])
		d.defs = append(d.defs, t)
		return
	case "lambda":
		d.hasLam = true
	case "forall", "exists":
		d.hasQuant = true
	case "app":
		var sb strings.Builder
		sb.WriteString("(")
		for i, a := range t.Args {
			if i > 0 {
				sb.WriteByte(' ')
			}
			sb.WriteString(a.Sort.String())
			d.noteSort(a.Sort)
		}
		sb.WriteString(") " + t.Sort.String())
		d.noteSort(t.Sort)
		d.funcs[t.Name] = sb.String()
	}
	for _, a := range t.Args {
		d.visit(a)
	}
	for _, p := range t.Pat {
		d.visit(p)
	}
	for _, v := range t.Bound {
		d.noteSort(v.Sort)
	}
}

func (d *decls) noteSort(s *Sort) {
	for s != nil {
		if s.Kind == SString {
			d.hasStr = true
		}
		if s.Kind == SUninterp && s.Name == "Str" {
			d.hasStrU = true
		}
		if s.Kind == SArray {
			d.noteSort(s.Idx)
			s = s.Elem
			continue
		}
		return
	}
}

func (d *decls) emit(b *strings.Builder) {
	if d.hasStrU {
		b.WriteString("(declare-sort Str 0)\n")
	}
	names := make([]string, 0, len(d.consts))
	for n := range d.consts {
		names = append(names, n)
	}
	sort.Strings(names)
	for _, n := range names {
		fmt.Fprintf(b, "(declare-const %s %s)\n", mangle(n), d.consts[n])
	}
	fnames := make([]string, 0, len(d.funcs))
	for n := range d.funcs {
		fnames = append(fnames, n)
	}
	sort.Strings(fnames)
	for _, n := range fnames {
		fmt.Fprintf(b, "(declare-fun %s %s)\n", mangle(n), d.funcs[n])
	}
	for _, t := range d.defs {
		fmt.Fprintf(b, "(define-fun %s () %s %s)\n", mangle(t.Name), t.Sort, t.Args[0])
	}
}

// subst replaces bound variables / constants by name.
func subst(t *Term, m map[string]*Term) *Term {
	switch t.Op {
	case "var", "const":
		if r, ok := m[t.Name]; ok {
			return r
		}
		return t
	case "int", "bool", "str", "bv":
		return t
	case "def":
		return t
	}
	changed := false
	args := make([]*Term, len(t.Args))
	for i, a := range t.Args {
		args[i] = subst(a, m)
		if args[i] != a {
			changed = true
		}
	}
	if !changed {
		return t
	}
	n := *t
	n.Args = args
	n.key = ""
	return &n
}

func itoa(i int) string { return strconv.Itoa(i) }

// termSize counts nodes (definitions count as one).
func termSize(t *Term, limit int) int {
	n := 1
	if t.Op == "def" {
		return 1
	}
	for _, a := range t.Args {
		n += termSize(a, limit-n)
		if n > limit {
			return n
		}
	}
	return n
}

// nameBig gives a large term a name so that later uses do not copy it.
func nameBig(t *Term) *Term {
	if t == nil || t.Op == "def" || t.Op == "const" {
		return t
	}
	if termSize(t, 24) > 24 {
		return Def(freshName("t"), t)
	}
	return t
}

// StrAllChars: every character of s is the one-character string c (c a literal).
func StrAllChars(s *Term, c string) *Term {
	re := mk("re.*", ReS, mk("str.to_re", ReS, StrLit(c)))
	return mk("str.in_re", BoolS, s, re)
}
