#!/usr/bin/env python3
"""mkmutant.py <prop> <name> <file> <old> <new> [count]: write selftest/mutants/<prop>/<name>.patch
replacing the (count-th, default only) occurrence of old by new in /repo/<file>."""
import sys, subprocess, os, tempfile, shutil
prop, name, f, old, new = sys.argv[1:6]
which = int(sys.argv[6]) if len(sys.argv) > 6 else None
src = open('/repo/' + f).read()
n = src.count(old)
if n == 0: sys.exit('old text not found')
if n > 1 and which is None: sys.exit('old text occurs %d times; give an occurrence index' % n)
if which is None: which = 1
idx = -1
for _ in range(which): idx = src.index(old, idx + 1)
mut = src[:idx] + new + src[idx + len(old):]
d = tempfile.mkdtemp()
try:
    os.makedirs(os.path.join(d, 'a', os.path.dirname(f)), exist_ok=True)
    os.makedirs(os.path.join(d, 'b', os.path.dirname(f)), exist_ok=True)
    open(os.path.join(d, 'a', f), 'w').write(src)
    open(os.path.join(d, 'b', f), 'w').write(mut)
    out = subprocess.run(['diff', '-u', 'a/' + f, 'b/' + f], cwd=d, capture_output=True, text=True).stdout
finally:
    shutil.rmtree(d)
os.makedirs('/verif/selftest/mutants/' + prop, exist_ok=True)
open('/verif/selftest/mutants/%s/%s.patch' % (prop, name), 'w').write(out)
print('wrote', name)
