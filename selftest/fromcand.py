#!/usr/bin/env python3
"""fromcand.py <prop> <candidate-name>...: instantiate surveyed mutants (selftest_candidates.json) as patches against the current /repo."""
import json, subprocess, sys
d = {x['name']: x for x in json.load(open('/verif/selftest_candidates.json'))}
prop = sys.argv[1]
for n in sys.argv[2:]:
    x = d[n]
    src = open('/repo/' + x['file']).read()
    c = src.count(x['old'])
    if c != 1:
        print('SKIP', n, 'old text occurs', c, 'times'); continue
    subprocess.run(['/verif/selftest/mkmutant.py', prop, n, x['file'], x['old'], x['new']], check=True)
