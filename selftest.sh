#!/bin/bash
# Must-fail corpus: every mutant patch under selftest/mutants/<ID>/ must make ./check <ID> exit 1.
# usage: ./selftest.sh [ID ...]   (default: all)
set -u
cd "$(dirname "$0")"
IDS="$@"; [ -z "$IDS" ] && IDS=$(ls selftest/mutants)
fail=0; total=0
# one snapshot of /repo for the whole run (mutants are applied to copies of it; /repo itself is never touched)
BASE=/var/tmp/verif-selftest-base-$$
rm -rf $BASE; mkdir -p $BASE; rsync -a --exclude .git /repo/ $BASE/
trap 'rm -rf $BASE' EXIT
for ID in $IDS; do
  [ -d selftest/mutants/$ID ] || continue
  for P in selftest/mutants/$ID/*.patch; do
    [ -f "$P" ] || continue
    total=$((total+1))
    W=/var/tmp/verif-selftest-$$-$total
    rm -rf $W; mkdir -p $W
    rsync -a $BASE/ $W/repo/
    if ! (cd $W/repo && patch -p1 -s --no-backup-if-mismatch < /verif/$P) >/dev/null 2>&1; then
      echo "SELFTEST $ID $(basename $P): patch does not apply"; fail=$((fail+1)); rm -rf $W; continue
    fi
    out=$(VERIF_REPO=$W/repo VERIF_OUT=$W/out VERIF_EVIDENCE=$W/ev.json VERIF_NO_SELFTEST=1 ./check $ID quick 2>&1); rc=$?
    want=1
    case "$P" in *.equiv.patch) want=0;; esac
    if [ $rc -ne $want ]; then
      echo "SELFTEST $ID $(basename $P): expected exit $want, got $rc"; fail=$((fail+1))
    else
      echo "selftest ok $ID $(basename $P): $(echo "$out" | grep -m1 '^FAILED' | cut -c1-110)"
    fi
    rm -rf $W
  done
done
echo "selftest: $total mutants, $fail not behaving as expected"
[ $fail -eq 0 ]
