#!/bin/bash
# Must-fail corpus: every mutant patch under selftest/mutants/<ID>/ must make ./check <ID> exit 1
# (a *.equiv.patch - a change that does not break the property - must leave it at exit 0).
# usage: ./selftest.sh [ID ...]   (default: all)      SELFTEST_PAR=<n>: mutants checked concurrently (default 1)
set -u
cd "$(dirname "$0")"
IDS="$@"; [ -z "$IDS" ] && IDS=$(ls selftest/mutants)
PAR="${SELFTEST_PAR:-1}"
# one snapshot of /repo for the whole run (mutants are applied to copies of it; /repo itself is never touched)
BASE=/var/tmp/verif-selftest-base-$$
RES=/var/tmp/verif-selftest-res-$$
rm -rf $BASE $RES; mkdir -p $BASE $RES; rsync -a --exclude .git /repo/ $BASE/
trap 'rm -rf $BASE $RES /var/tmp/verif-selftest-$$-*' EXIT
one() {
  ID=$1; P=$2; N=$3
  W=/var/tmp/verif-selftest-$$-$N
  rm -rf $W; mkdir -p $W
  rsync -a $BASE/ $W/repo/
  if ! (cd $W/repo && patch -p1 -s --no-backup-if-mismatch < /verif/$P) >/dev/null 2>&1; then
    echo "SELFTEST $ID $(basename $P): patch does not apply" > $RES/$N; rm -rf $W; return
  fi
  if ! (cd $W/repo && GOFLAGS=-mod=mod GOPROXY=off GOSUMDB=off GOTOOLCHAIN=local go build ./... ) >/dev/null 2>&1; then
    echo "SELFTEST $ID $(basename $P): mutant does not compile" > $RES/$N; rm -rf $W; return
  fi
  out=$(VERIF_REPO=$W/repo VERIF_OUT=$W/out VERIF_EVIDENCE=$W/ev.json VERIF_NO_SELFTEST=1 ./check $ID quick 2>&1); rc=$?
  want=1
  case "$P" in *.equiv.patch) want=0;; esac
  if [ $rc -ne $want ]; then
    echo "SELFTEST $ID $(basename $P): expected exit $want, got $rc" > $RES/$N
  else
    echo "selftest ok $ID $(basename $P): $(echo "$out" | grep -m1 '^FAILED\|^UNDISCHARGED' | cut -c1-110)" > $RES/$N
  fi
  rm -rf $W
}
total=0
for ID in $IDS; do
  [ -d selftest/mutants/$ID ] || continue
  for P in selftest/mutants/$ID/*.patch; do
    [ -f "$P" ] || continue
    total=$((total+1))
    one $ID $P $total &
    while [ $(jobs -rp | wc -l) -ge $PAR ]; do sleep 0.5; done
  done
done
wait
fail=0
for i in $(seq 1 $total); do cat $RES/$i; grep -q '^SELFTEST' $RES/$i && fail=$((fail+1)); done
echo "selftest: $total mutants, $fail not behaving as expected"
[ $fail -eq 0 ]
