#!/usr/bin/env python3
# Rewrites MANIFEST.hooks.source_commits from /repo's history: every commit whose subject starts with "verif hook"
# (contract comment files guarded by the build tag verif). Run before committing /verif after a hook commit.
import json, subprocess
log = subprocess.run(['git', '-C', '/repo', 'log', '--reverse', '--format=%h %s'], capture_output=True, text=True).stdout.splitlines()
hooks = [l.split()[0] for l in log if l.split(' ', 1)[1].startswith('verif hook')]
m = json.load(open('/verif/MANIFEST.json'))
m['hooks']['source_commits'] = hooks
json.dump(m, open('/verif/MANIFEST.json', 'w'), indent=1)
print(len(hooks), 'hook commits')
