#!/bin/bash
# Runs every registered check (quick tier) on /repo's working tree and refreshes the evidence files.
cd "$(dirname "$0")"
ids=$(python3 -c "import json;print(' '.join(c['property_id'] for c in json.load(open('MANIFEST.json'))['checks']))")
# the names of the locals that loop invariants refer to, as they are on this (unchanged) tree: lets a later check
# recognise a local that was only renamed (govc/locals.go). Only ever run on the tree the contracts were written for.
[ -z "${VERIF_REPO:-}" ] && bin/govc locals >/dev/null
rc=0
for id in $ids; do ./check $id ${1:-quick} 2>&1 | grep "^property\|^VIOLATION\|^KNOWN" || true; [ ${PIPESTATUS[0]} -eq 0 ] || rc=1; done
exit $rc
