package audit

// Executable form of DESIGN.md table C.2 (abstract os.File model). err classes: "" | "EOF" | "ERR"
type fileState struct{ c []byte }
type handle struct {
	f      *fileState
	flag   int
	off    int64
	closed bool
}

func (h *handle) canRead() bool  { return h.flag&3 == O_RDONLY || h.flag&3 == O_RDWR }
func (h *handle) canWrite() bool { return h.flag&3 == O_WRONLY || h.flag&3 == O_RDWR }

func (h *handle) readAt(n int, off int64) ([]byte, string) {
	size := int64(len(h.f.c))
	if n == 0 { return nil, "" }
	if off >= size { return nil, "EOF" }
	end := off + int64(n)
	e := ""
	if end > size { end = size; e = "EOF" }
	return append([]byte{}, h.f.c[off:end]...), e
}
func (h *handle) Read(n int) ([]byte, string) {
	if n == 0 { return nil, "" } // os: zero-length transfers never reach the descriptor
	if h.closed || !h.canRead() { return nil, "ERR" }
	b, e := h.readAt(n, h.off)
	h.off += int64(len(b))
	if len(b) > 0 { e = "" } // os.File.Read returns EOF only with n == 0
	return b, e
}
func (h *handle) ReadAt(n int, off int64) ([]byte, string) {
	if off < 0 { return nil, "ERR" }
	if n == 0 { return nil, "" }
	if h.closed || !h.canRead() || off < 0 { return nil, "ERR" }
	return h.readAt(n, off)
}
func (h *handle) writeAt(d []byte, off int64) {
	end := off + int64(len(d))
	for int64(len(h.f.c)) < end { h.f.c = append(h.f.c, 0) }
	copy(h.f.c[off:], d)
}
func (h *handle) Write(d []byte) (int, string) {
	if len(d) == 0 && !h.closed { return 0, "" }
	if h.closed || !h.canWrite() { return 0, "ERR" }
	if h.flag&O_APPEND != 0 { h.off = int64(len(h.f.c)) }
	if len(d) == 0 { return 0, "" }
	h.writeAt(d, h.off)
	h.off += int64(len(d))
	return len(d), ""
}
func (h *handle) WriteAt(d []byte, off int64) (int, string) {
	if h.flag&O_APPEND != 0 { return 0, "ERR" }
	if off < 0 { return 0, "ERR" }
	if len(d) == 0 { return 0, "" }
	if h.closed { return 0, "ERR" }
	if !h.canWrite() { if len(d) == 0 { return 0, "" }; return 0, "ERR" }
	if len(d) == 0 { return 0, "" }
	h.writeAt(d, off)
	return len(d), ""
}
func (h *handle) Seek(o int64, w int) (int64, string) {
	if h.closed { return 0, "ERR" }
	var base int64
	switch w { case 0: base = 0; case 1: base = h.off; case 2: base = int64(len(h.f.c)); default: return 0, "ERR" }
	if base+o < 0 { return 0, "ERR" }
	h.off = base + o
	return h.off, ""
}
func (h *handle) Truncate(s int64) string {
	if h.closed || s < 0 || !h.canWrite() { return "ERR" }
	for int64(len(h.f.c)) < s { h.f.c = append(h.f.c, 0) }
	h.f.c = h.f.c[:s]
	return ""
}
func (h *handle) Size() (int64, string) { if h.closed { return 0, "ERR" }; return int64(len(h.f.c)), "" }
func (h *handle) Close() string { if h.closed { return "ERR" }; h.closed = true; return "" }
