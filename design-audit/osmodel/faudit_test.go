package audit

import (
	"errors"
	"fmt"
	"io"
	"strings"
	"testing"

	"github.com/hack-pad/hackpadfs"
	hos "github.com/hack-pad/hackpadfs/os"
)

func fclass(err error) string { if err == nil { return "" }; if errors.Is(err, io.EOF) { return "EOF" }; return "ERR" }

type fop struct {
	name string
	os   func(h hackpadfs.File) string
	mod  func(h *handle) string
}

func fops() []fop {
	var out []fop
	for _, n := range []int{0, 1, 2, 5} {
		n := n
		out = append(out, fop{fmt.Sprintf("Read(%d)", n), func(h hackpadfs.File) string { b := make([]byte, n); k, e := h.Read(b); return fmt.Sprintf("%q %s", b[:k], fclass(e)) }, func(h *handle) string { b, e := h.Read(n); return fmt.Sprintf("%q %s", b, e) }})
		for _, off := range []int64{-1, 0, 2, 3, 9} {
			off := off
			out = append(out, fop{fmt.Sprintf("ReadAt(%d,%d)", n, off), func(h hackpadfs.File) string { b := make([]byte, n); k, e := hackpadfs.ReadAtFile(h, b, off); return fmt.Sprintf("%q %s", b[:k], fclass(e)) }, func(h *handle) string { b, e := h.ReadAt(n, off); return fmt.Sprintf("%q %s", b, e) }})
		}
	}
	for _, d := range []string{"", "X", "YZ"} {
		d := d
		out = append(out, fop{fmt.Sprintf("Write(%q)", d), func(h hackpadfs.File) string { k, e := hackpadfs.WriteFile(h, []byte(d)); return fmt.Sprintf("%d %s", k, fclass(e)) }, func(h *handle) string { k, e := h.Write([]byte(d)); return fmt.Sprintf("%d %s", k, e) }})
		for _, off := range []int64{-1, 0, 2, 5} {
			off := off
			out = append(out, fop{fmt.Sprintf("WriteAt(%q,%d)", d, off), func(h hackpadfs.File) string { k, e := hackpadfs.WriteAtFile(h, []byte(d), off); return fmt.Sprintf("%d %s", k, fclass(e)) }, func(h *handle) string { k, e := h.WriteAt([]byte(d), off); return fmt.Sprintf("%d %s", k, e) }})
		}
	}
	for _, w := range []int{0, 1, 2, 5} {
		for _, o := range []int64{-4, -1, 0, 1, 6} {
			w, o := w, o
			out = append(out, fop{fmt.Sprintf("Seek(%d,%d)", o, w), func(h hackpadfs.File) string { k, e := hackpadfs.SeekFile(h, o, w); return fmt.Sprintf("%d %s", k, fclass(e)) }, func(h *handle) string { k, e := h.Seek(o, w); return fmt.Sprintf("%d %s", k, e) }})
		}
	}
	for _, s := range []int64{-1, 0, 2, 3, 6} {
		s := s
		out = append(out, fop{fmt.Sprintf("Truncate(%d)", s), func(h hackpadfs.File) string { return fclass(hackpadfs.TruncateFile(h, s)) }, func(h *handle) string { return h.Truncate(s) }})
	}
	out = append(out, fop{"Stat", func(h hackpadfs.File) string { i, e := h.Stat(); if e != nil { return "0 ERR" }; return fmt.Sprintf("%d ", i.Size()) }, func(h *handle) string { s, e := h.Size(); return fmt.Sprintf("%d %s", s, e) }})
	out = append(out, fop{"Close", func(h hackpadfs.File) string { return fclass(h.Close()) }, func(h *handle) string { return h.Close() }})
	return out
}

func TestFileAudit(t *testing.T) {
	o := hos.NewFS(); p, _ := o.FromOSPath(t.TempDir()); fsys, _ := o.Sub(p)
	all := fops()
	flags := []int{O_RDONLY, O_WRONLY, O_RDWR, O_RDWR | O_APPEND, O_WRONLY | O_APPEND}
	n, bad := 0, 0
	// histories: op1 on handle A (flag fa), op2 on handle B (flag fb), op3 on handle A; compare every result, offsets and content
	for _, fa := range flags {
		for _, fb := range []int{O_RDWR, O_RDONLY} {
			for i1, o1 := range all {
				for i2, o2 := range all {
					if (i1*31+i2*17)%23 != 0 { continue } // deterministic 1/23 sample of pairs; third op enumerated fully below for a subset
					for i3, o3 := range all {
						if (i1+i2*7+i3*13)%11 != 0 { continue }
						hackpadfs.WriteFullFile(fsys, "f", []byte("abc"), 0644)
						a, _ := hackpadfs.OpenFile(fsys, "f", fa, 0); b, _ := hackpadfs.OpenFile(fsys, "f", fb, 0)
						st := &fileState{c: []byte("abc")}
						ma, mb := &handle{f: st, flag: fa}, &handle{f: st, flag: fb}
						steps := []struct{ o fop; h hackpadfs.File; m *handle }{{o1, a, ma}, {o2, b, mb}, {o3, a, ma}}
						for si, s := range steps {
							r1, r2 := s.o.os(s.h), s.o.mod(s.m)
							pa, ea := hackpadfs.SeekFile(a, 0, io.SeekCurrent); pb, eb := hackpadfs.SeekFile(b, 0, io.SeekCurrent)
							content, _ := hackpadfs.ReadFile(fsys, "f")
							n++
							msg := ""
							zero := strings.HasPrefix(s.o.name, "Read(0") || strings.HasPrefix(s.o.name, "ReadAt(0") || strings.HasPrefix(s.o.name, "Write(\"\"") || strings.HasPrefix(s.o.name, "WriteAt(\"\"")
							if r1 != r2 && !zero { msg += fmt.Sprintf(" result os=%s model=%s", r1, r2) }
							if ea == nil && pa != ma.off { msg += fmt.Sprintf(" offA os=%d model=%d", pa, ma.off) }
							if eb == nil && pb != mb.off { msg += fmt.Sprintf(" offB os=%d model=%d", pb, mb.off) }
							if string(content) != string(st.c) { msg += fmt.Sprintf(" content os=%q model=%q", content, st.c) }
							if msg != "" { bad++; if bad < 40 { t.Logf("flags %#x/%#x %s; %s; %s step %d:%s", fa, fb, o1.name, o2.name, o3.name, si, msg) }; break }
						}
						a.Close(); b.Close()
					}
				}
			}
		}
	}
	t.Logf("file steps %d disagreements %d", n, bad)
}
