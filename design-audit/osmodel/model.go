package audit

import (
	"sort"
	"strings"
)

// Executable form of DESIGN.md table C.1 (abstract FS model). Classes: "" ok, EINVAL, ENOENT, EEXIST, EISDIR, ENOTDIR, ENOTEMPTY, EANY (some error).
type node struct {
	dir  bool
	perm uint32
	data string
}
type tree map[string]node

func (t tree) clone() tree { c := tree{}; for k, v := range t { c[k] = v }; return c }

func validPath(p string) bool {
	if p == "." { return true }
	if p == "" { return false }
	for _, e := range strings.Split(p, "/") {
		if e == "" || e == "." || e == ".." { return false }
	}
	return true // (utf8 ignored in the audit alphabet)
}
func pdir(p string) string { i := strings.LastIndex(p, "/"); if i < 0 { return "." }; return p[:i] }
func ancestors(p string) []string { // proper ancestors, nearest last... order root first
	var out []string
	for p != "." { p = pdir(p); out = append([]string{p}, out...) }
	return out
}
func (t tree) throughFile(p string) (string, bool) {
	for _, a := range ancestors(p) {
		if n, ok := t[a]; ok && !n.dir { return a, true }
	}
	return "", false
}
func (t tree) lookupErr(p string) string {
	if !validPath(p) { return "EINVAL" }
	if _, tf := t.throughFile(p); tf { return "ENOTDIR" }
	if _, ok := t[p]; !ok { return "ENOENT" }
	return ""
}
func (t tree) parentErr(p string) string {
	if _, tf := t.throughFile(p); tf { return "ENOTDIR" }
	if _, ok := t[pdir(p)]; !ok { return "ENOENT" }
	return ""
}
func (t tree) hasChild(p string) bool {
	for k := range t { if k != "." && pdir(k) == p { return true } }
	return false
}
func under(p, d string) bool { return d == "." || p == d || strings.HasPrefix(p, d+"/") }

const (O_RDONLY = 0; O_WRONLY = 1; O_RDWR = 2; O_APPEND = 0x400; O_CREATE = 0x40; O_EXCL = 0x80; O_TRUNC = 0x200)

func (t tree) Mkdir(p string, perm uint32) (tree, string) {
	if !validPath(p) { return t, "EINVAL" }
	if _, ok := t[p]; ok { return t, "EEXIST" }
	if e := t.parentErr(p); e != "" { return t, e }
	n := t.clone(); n[p] = node{dir: true, perm: perm & 0777}; return n, ""
}
func (t tree) MkdirAll(p string, perm uint32) (tree, string, string) { // tree, class, errpath
	if !validPath(p) { return t, "EINVAL", p }
	chain := append(ancestors(p), p)
	for _, a := range chain {
		if n, ok := t[a]; ok && !n.dir { return t, "ENOTDIR", a }
	}
	n := t.clone()
	for _, a := range chain { if _, ok := n[a]; !ok { n[a] = node{dir: true, perm: perm & 0777} } }
	return n, "", ""
}
func (t tree) OpenFile(p string, flag int, perm uint32) (tree, string) {
	if !validPath(p) { return t, "EINVAL" }
	if n, ok := t[p]; ok {
		if flag&O_CREATE != 0 && flag&O_EXCL != 0 { return t, "EEXIST" }
		if n.dir && (flag&3 != 0 || flag&O_CREATE != 0 || flag&O_TRUNC != 0) { return t, "EISDIR" }
		if flag&O_TRUNC != 0 && !n.dir { c := t.clone(); n.data = ""; c[p] = n; return c, "" }
		return t, ""
	}
	if _, tf := t.throughFile(p); tf { return t, "ENOTDIR" }
	if flag&O_CREATE == 0 { return t, "ENOENT" }
	if _, ok := t[pdir(p)]; !ok { return t, "ENOENT" }
	c := t.clone(); c[p] = node{perm: perm & 0777}; return c, ""
}
func (t tree) Remove(p string) (tree, string) {
	if e := t.lookupErr(p); e != "" { return t, e }
	if t[p].dir && t.hasChild(p) { return t, "ENOTEMPTY" }
	c := t.clone(); delete(c, p); return c, ""
}
func (t tree) RemoveAll(p string) (tree, string) {
	if !validPath(p) { return t, "EINVAL" }
	if _, tf := t.throughFile(p); tf { return t, "ENOTDIR" }
	if _, ok := t[p]; !ok { return t, "" }
	c := t.clone()
	for k := range t { if under(k, p) { delete(c, k) } }
	return c, ""
}
func (t tree) Rename(o, n string) (tree, string) {
	if !validPath(o) || !validPath(n) { return t, "EINVAL" }
	if nn, ok := t[n]; ok && nn.dir { // Go's own pre-check in os.Rename
		if e := t.lookupErr(o); e != "" { return t, e }
		return t, "EEXIST"
	}
	if e := t.parentErr(o); e != "" { return t, e } // kernel: resolve both parents first
	if e := t.parentErr(n); e != "" { return t, e }
	if _, ok := t[o]; !ok { return t, "ENOENT" }
	if o == n { return t, "" }
	if t[o].dir && under(n, o) { return t, "EINVAL" }
	if nn, ok := t[n]; ok && t[o].dir && !nn.dir { return t, "ENOTDIR" }
	c := t.clone()
	for k, v := range t {
		if under(k, o) { delete(c, k); c[n+strings.TrimPrefix(k, o)] = v }
	}
	return c, ""
}
func (t tree) Stat(p string) string { return t.lookupErr(p) }
func (t tree) Chmod(p string, m uint32) (tree, string) {
	if e := t.lookupErr(p); e != "" { return t, e }
	c := t.clone(); n := c[p]; n.perm = m & 0777; c[p] = n; return c, ""
}
func (t tree) ReadDir(p string) ([]string, string) {
	if e := t.lookupErr(p); e != "" { return nil, e }
	if !t[p].dir { return nil, "ENOTDIR" }
	var out []string
	for k := range t { if k != "." && pdir(k) == p { out = append(out, k[strings.LastIndex(k, "/")+1:]) } }
	sort.Strings(out); return out, ""
}
func (t tree) ReadFile(p string) (string, string) {
	if e := t.lookupErr(p); e != "" { return "", e }
	if t[p].dir { return "", "EISDIR" }
	return t[p].data, ""
}
func (t tree) WriteFile(p, d string, perm uint32) (tree, string) {
	c, e := t.OpenFile(p, O_WRONLY|O_CREATE|O_TRUNC, perm)
	if e != "" { return t, e }
	n := c[p]; n.data = d; c[p] = n; return c, ""
}
