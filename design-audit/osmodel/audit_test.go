package audit

import (
	"errors"
	"fmt"
	"io/fs"
	"sort"
	"strings"
	"syscall"
	"testing"
	"time"

	"github.com/hack-pad/hackpadfs"
	hos "github.com/hack-pad/hackpadfs/os"
)

func class(err error) string {
	if err == nil { return "" }
	for _, c := range []struct{ n string; e error }{{"ENOTEMPTY", hackpadfs.ErrNotEmpty}, {"EINVAL", hackpadfs.ErrInvalid}, {"ENOENT", hackpadfs.ErrNotExist}, {"EEXIST", hackpadfs.ErrExist}, {"EISDIR", hackpadfs.ErrIsDir}, {"ENOTDIR", hackpadfs.ErrNotDir}} {
		if errors.Is(err, c.e) { return c.n }
	}
	return "EANY:" + err.Error()
}
func errPath(err error) string {
	switch e := err.(type) { case *hackpadfs.PathError: return e.Path; case *hackpadfs.LinkError: return e.Old + "|" + e.New }
	return "?"
}

type seed []string // creation script: "d:path" or "f:path:data"
var seeds = []seed{
	{}, {"f:a:xyz"}, {"d:a"}, {"d:a", "f:a/b:q"}, {"d:a", "d:a/b"}, {"d:a", "f:b:zz"}, {"d:a", "d:a/b", "f:a/b/c:1"}, {"f:a:1", "f:b:2"}, {"d:a", "d:b"}, {"d:a", "f:a/a:k", "d:b"}, {"d:a", "d:a/b", "d:b"},
}
var paths = []string{".", "a", "b", "c", "a/a", "a/b", "b/a", "a/b/c", "a/c/d", "b/b", "", "/a", "a/", "a//b", "./a", "a/../b"}

func build(t *testing.T, s seed) (hackpadfs.FS, tree) {
	o := hos.NewFS(); p, _ := o.FromOSPath(t.TempDir()); f, _ := o.Sub(p)
	m := tree{".": {dir: true}}
	for _, c := range s {
		parts := strings.Split(c, ":")
		if parts[0] == "d" {
			if err := hackpadfs.Mkdir(f, parts[1], 0755); err != nil { t.Fatal(err) }
			m[parts[1]] = node{dir: true, perm: 0755}
		} else {
			if err := hackpadfs.WriteFullFile(f, parts[1], []byte(parts[2]), 0644); err != nil { t.Fatal(err) }
			m[parts[1]] = node{perm: 0644, data: parts[2]}
		}
	}
	return f, m
}
func snapshot(f hackpadfs.FS) tree {
	out := tree{}
	hackpadfs.WalkDir(f, ".", func(p string, d fs.DirEntry, err error) error {
		if err != nil { return nil }
		i, _ := d.Info()
		n := node{dir: d.IsDir(), perm: uint32(i.Mode().Perm())}
		if !n.dir { b, _ := hackpadfs.ReadFile(f, p); n.data = string(b) }
		if p == "." { n.perm = 0 }
		out[p] = n
		return nil
	})
	return out
}
func eq(a, b tree) string {
	var d []string
	for k, v := range a { if k == "." { continue }; if w, ok := b[k]; !ok || v != w { d = append(d, fmt.Sprintf("%s model=%v os=%v(%v)", k, v, w, ok)) } }
	for k := range b { if _, ok := a[k]; !ok { d = append(d, "extra in os: "+k) } }
	sort.Strings(d); return strings.Join(d, "; ")
}

type op struct {
	name string
	os   func(f hackpadfs.FS) (error, string) // error, extra result
	mod  func(m tree) (tree, string, string, string) // tree, class, errpath("" = don't check), extra result
}

func ops() []op {
	var out []op
	for _, p := range paths {
		p := p
		for _, perm := range []uint32{0755, 0700 | uint32(fs.ModeSticky), 0} {
			perm := perm
			out = append(out, op{fmt.Sprintf("Mkdir(%q,%o)", p, perm), func(f hackpadfs.FS) (error, string) { return hackpadfs.Mkdir(f, p, fs.FileMode(perm)), "" },
				func(m tree) (tree, string, string, string) { t, c := m.Mkdir(p, perm); return t, c, p, "" }})
		}
		out = append(out, op{fmt.Sprintf("MkdirAll(%q)", p), func(f hackpadfs.FS) (error, string) { return hackpadfs.MkdirAll(f, p, 0750), "" },
			func(m tree) (tree, string, string, string) { t, c, ep := m.MkdirAll(p, 0750); return t, c, ep, "" }})
		for _, acc := range []int{O_RDONLY, O_WRONLY, O_RDWR} {
			for bits := 0; bits < 16; bits++ {
				flag := acc
				if bits&1 != 0 { flag |= O_CREATE }; if bits&2 != 0 { flag |= O_EXCL }; if bits&4 != 0 { flag |= O_TRUNC }; if bits&8 != 0 { flag |= O_APPEND }
				out = append(out, op{fmt.Sprintf("OpenFile(%q,%#x)", p, flag), func(f hackpadfs.FS) (error, string) { h, err := hackpadfs.OpenFile(f, p, flag, 0640); if err == nil { h.Close() }; return err, "" },
					func(m tree) (tree, string, string, string) { t, c := m.OpenFile(p, flag, 0640); return t, c, p, "" }})
			}
		}
		if p != "." {
			out = append(out, op{fmt.Sprintf("Remove(%q)", p), func(f hackpadfs.FS) (error, string) { return hackpadfs.Remove(f, p), "" }, func(m tree) (tree, string, string, string) { t, c := m.Remove(p); return t, c, p, "" }})
			out = append(out, op{fmt.Sprintf("RemoveAll(%q)", p), func(f hackpadfs.FS) (error, string) { return hackpadfs.RemoveAll(f, p), "" }, func(m tree) (tree, string, string, string) { t, c := m.RemoveAll(p); return t, c, "", "" }})
		}
		out = append(out, op{fmt.Sprintf("Stat(%q)", p), func(f hackpadfs.FS) (error, string) { _, e := hackpadfs.Stat(f, p); return e, "" }, func(m tree) (tree, string, string, string) { return m, m.Stat(p), p, "" }})
		out = append(out, op{fmt.Sprintf("Chmod(%q)", p), func(f hackpadfs.FS) (error, string) { return hackpadfs.Chmod(f, p, 0640), "" }, func(m tree) (tree, string, string, string) { t, c := m.Chmod(p, 0640); return t, c, p, "" }})
		out = append(out, op{fmt.Sprintf("Chtimes(%q)", p), func(f hackpadfs.FS) (error, string) { return hackpadfs.Chtimes(f, p, time.Unix(5, 0), time.Unix(7, 0)), "" }, func(m tree) (tree, string, string, string) { return m, m.Stat(p), p, "" }})
		out = append(out, op{fmt.Sprintf("ReadDir(%q)", p), func(f hackpadfs.FS) (error, string) { es, e := hackpadfs.ReadDir(f, p); var n []string; for _, x := range es { n = append(n, x.Name()) }; return e, strings.Join(n, ",") },
			func(m tree) (tree, string, string, string) { n, c := m.ReadDir(p); return m, c, p, strings.Join(n, ",") }})
		out = append(out, op{fmt.Sprintf("ReadFile(%q)", p), func(f hackpadfs.FS) (error, string) { b, e := hackpadfs.ReadFile(f, p); return e, string(b) }, func(m tree) (tree, string, string, string) { d, c := m.ReadFile(p); return m, c, p, d }})
		out = append(out, op{fmt.Sprintf("WriteFile(%q)", p), func(f hackpadfs.FS) (error, string) { return hackpadfs.WriteFullFile(f, p, []byte("NEW"), 0604), "" }, func(m tree) (tree, string, string, string) { t, c := m.WriteFile(p, "NEW", 0604); return t, c, p, "" }})
		for _, q := range paths {
			q := q
			if p == "." || q == "." { continue }
			out = append(out, op{fmt.Sprintf("Rename(%q,%q)", p, q), func(f hackpadfs.FS) (error, string) { return hackpadfs.Rename(f, p, q), "" }, func(m tree) (tree, string, string, string) { t, c := m.Rename(p, q); return t, c, p + "|" + q, "" }})
		}
	}
	return out
}

func TestAudit(t *testing.T) {
	syscall.Umask(0)
	all := ops()
	n, bad := 0, 0
	for si, s := range seeds {
		for _, o := range all {
			f, m := build(t, s)
			err, extra := o.os(f)
			m2, c, ep, mextra := o.mod(m)
			n++
			oc := class(err)
			var msgs []string
			if strings.HasPrefix(oc, "EANY") && c != "" && c != "EANY" { msgs = append(msgs, "class model="+c+" os="+oc) } else if !strings.HasPrefix(oc, "EANY") && oc != c { msgs = append(msgs, "class model="+c+" os="+oc) }
			if err != nil && c != "" && c != "EINVAL" && ep != "" && ep != "." && !strings.HasPrefix(ep, ".|") && errPath(err) != ep { msgs = append(msgs, "errpath model="+ep+" os="+errPath(err)) }
			if err == nil && extra != mextra { msgs = append(msgs, "result model="+mextra+" os="+extra) }
			if d := eq(m2, snapshot(f)); d != "" { msgs = append(msgs, "tree: "+d) }
			if len(msgs) > 0 { bad++; if bad < 80 { t.Logf("seed %d %v %s: %s", si, s, o.name, strings.Join(msgs, " | ")) } }
		}
	}
	t.Logf("cases %d disagreements %d", n, bad)
}
