package hackpadfs_test

import (
	"testing"

	"github.com/hack-pad/hackpadfs"
	"github.com/hack-pad/hackpadfs/mem"
)

// Rename through a generic Sub view fails with ErrNotImplemented although the
// same Rename on the parent at dir/name succeeds.
func TestHuntSubRenameNotImplemented(t *testing.T) {
	newParent := func() hackpadfs.FS {
		fs, err := mem.NewFS()
		if err != nil {
			t.Fatal(err)
		}
		if err := fs.Mkdir("d", 0700); err != nil {
			t.Fatal(err)
		}
		if err := hackpadfs.WriteFullFile(fs, "d/f", []byte("x"), 0600); err != nil {
			t.Fatal(err)
		}
		return fs
	}

	parent := newParent()
	parentErr := hackpadfs.Rename(parent, "d/f", "d/g")
	if parentErr != nil {
		t.Fatalf("parent rename unexpectedly failed: %v", parentErr)
	}

	viewParent := newParent()
	view, err := hackpadfs.Sub(viewParent, "d")
	if err != nil {
		t.Fatal(err)
	}
	viewErr := hackpadfs.Rename(view, "f", "g")
	if viewErr != nil {
		t.Errorf("Rename(Sub(fs, d), f, g) = %v; Rename(fs, d/f, d/g) = nil", viewErr)
	}
	if _, err := hackpadfs.Stat(viewParent, "d/g"); err != nil {
		t.Errorf("after Rename through the view, d/g is missing in the parent: %v", err)
	}
}
