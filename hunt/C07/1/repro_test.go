package mount_test

import (
	"testing"

	"github.com/hack-pad/hackpadfs"
	"github.com/hack-pad/hackpadfs/mem"
	"github.com/hack-pad/hackpadfs/mount"
)

func TestSubAboveMountPoint(t *testing.T) {
	root, _ := mem.NewFS()
	if err := root.MkdirAll("a/b", 0o700); err != nil {
		t.Fatal(err)
	}
	inner, _ := mem.NewFS()
	f, err := hackpadfs.Create(inner, "inm")
	if err != nil {
		t.Fatal(err)
	}
	f.Close()
	m, _ := mount.NewFS(root)
	if err := m.AddMount("a/b", inner); err != nil {
		t.Fatal(err)
	}
	if _, err := hackpadfs.Stat(m, "a/b/inm"); err != nil {
		t.Fatal("parent:", err)
	}
	view, err := hackpadfs.Sub(m, "a")
	if err != nil {
		t.Fatal(err)
	}
	if _, err := hackpadfs.Stat(view, "b/inm"); err != nil {
		t.Error("view:", err)
	}
	// a write through the view must land in the mounted file system, not in the root below the mount point
	g, err := hackpadfs.Create(view, "b/new")
	if err != nil {
		t.Fatal(err)
	}
	g.Close()
	if _, err := hackpadfs.Stat(inner, "new"); err != nil {
		t.Error("write through the view did not reach the mounted file system:", err)
	}
	if _, err := hackpadfs.Stat(root, "a/b/new"); err == nil {
		t.Error("write through the view landed in the root file system, hidden below the mount point")
	}
}
