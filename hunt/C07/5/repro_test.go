package hackpadfs_test

import (
	"testing"

	"github.com/hack-pad/hackpadfs"
	"github.com/hack-pad/hackpadfs/mem"
)

// Errors of a file handle opened through the view name the parent's path
// (outside the view's namespace) instead of the name used to open it.
func TestHuntSubHandleErrorNamesParentPath(t *testing.T) {
	parent, err := mem.NewFS()
	if err != nil {
		t.Fatal(err)
	}
	if err := parent.MkdirAll("secret-base/b", 0700); err != nil {
		t.Fatal(err)
	}
	view, err := hackpadfs.Sub(parent, "secret-base")
	if err != nil {
		t.Fatal(err)
	}
	f, err := view.Open("b")
	if err != nil {
		t.Fatal(err)
	}
	_ = f.Close()
	_, err = f.Stat() // closed: fails with a *PathError
	pathErr, ok := err.(*hackpadfs.PathError)
	if !ok {
		t.Fatalf("unexpected error %v", err)
	}
	if pathErr.Path != "b" {
		t.Errorf("error of a handle opened at %q through Sub(fs, \"secret-base\") names %q (%v); the parent's handle for secret-base/b names secret-base/b, i.e. \"b\" in the view", "b", pathErr.Path, err)
	}
}
