package hackpadfs_test

import (
	"errors"
	"testing"

	"github.com/hack-pad/hackpadfs"
	"github.com/hack-pad/hackpadfs/mem"
)

// MkdirAll through a view whose dir does not exist (yet) creates dir's missing
// ancestors, i.e. it changes the parent outside dir.
func TestHuntSubMkdirAllCreatesAncestorsOutsideDir(t *testing.T) {
	parent, err := mem.NewFS()
	if err != nil {
		t.Fatal(err)
	}
	view, err := hackpadfs.Sub(parent, "nx/y")
	if err != nil {
		t.Fatal(err)
	}
	_ = hackpadfs.MkdirAll(view, "z", 0700)

	// "nx" is outside of dir "nx/y": nothing may have been created there through the view
	entries, err := hackpadfs.ReadDir(parent, ".")
	if err != nil {
		t.Fatal(err)
	}
	for _, e := range entries {
		t.Errorf("MkdirAll(Sub(fs, \"nx/y\"), \"z\") created %q in the parent's root directory, outside nx/y", e.Name())
	}
	if _, err := hackpadfs.Stat(parent, "nx"); !errors.Is(err, hackpadfs.ErrNotExist) {
		t.Errorf("Stat(parent, \"nx\") err = %v, want not exist", err)
	}
}
