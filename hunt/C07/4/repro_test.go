package hackpadfs_test

import (
	gofs "io/fs"
	"testing"

	"github.com/hack-pad/hackpadfs"
	"github.com/hack-pad/hackpadfs/mem"
)

// The view hides the parent's optional interfaces, so helpers that do not go
// through MountFS delegation (WalkDir, io/fs.Stat) give a different result.
func TestHuntSubWalkDirResultDiffers(t *testing.T) {
	parent, err := mem.NewFS()
	if err != nil {
		t.Fatal(err)
	}
	if err := parent.Mkdir("d", 0700); err != nil {
		t.Fatal(err)
	}
	view, err := hackpadfs.Sub(parent, "d")
	if err != nil {
		t.Fatal(err)
	}

	var parentErr, viewErr error
	_ = hackpadfs.WalkDir(parent, "d/nx", func(p string, d gofs.DirEntry, err error) error {
		parentErr = err
		return nil
	})
	_ = hackpadfs.WalkDir(view, "nx", func(p string, d gofs.DirEntry, err error) error {
		viewErr = err
		return nil
	})
	pe, ok1 := parentErr.(*hackpadfs.PathError)
	ve, ok2 := viewErr.(*hackpadfs.PathError)
	if !ok1 || !ok2 {
		t.Fatalf("unexpected errors: parent %v, view %v", parentErr, viewErr)
	}
	if pe.Op != ve.Op {
		t.Errorf("WalkDir callback error: parent at d/nx reports op %q (%v), view at nx reports op %q (%v)", pe.Op, pe, ve.Op, ve)
	}
}
