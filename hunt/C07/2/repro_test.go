package hackpadfs_test

import (
	"testing"

	"github.com/hack-pad/hackpadfs"
	"github.com/hack-pad/hackpadfs/mem"
	"github.com/hack-pad/hackpadfs/mount"
)

// Sub of a mount.FS at a directory above (or equal to "." / a mount point that
// has further mounts below it) forgets every mount below that directory.
func TestHuntSubOfMountDropsMounts(t *testing.T) {
	for _, dir := range []string{"a", "."} {
		root, err := mem.NewFS()
		if err != nil {
			t.Fatal(err)
		}
		if err := root.MkdirAll("a/m", 0700); err != nil {
			t.Fatal(err)
		}
		// shadowed by the mount, must be invisible through the mount.FS and any view of it
		if err := hackpadfs.WriteFullFile(root, "a/m/f", []byte("shadowed-root"), 0600); err != nil {
			t.Fatal(err)
		}
		mounted, err := mem.NewFS()
		if err != nil {
			t.Fatal(err)
		}
		if err := hackpadfs.WriteFullFile(mounted, "f", []byte("mounted"), 0600); err != nil {
			t.Fatal(err)
		}
		parent, err := mount.NewFS(root)
		if err != nil {
			t.Fatal(err)
		}
		if err := parent.AddMount("a/m", mounted); err != nil {
			t.Fatal(err)
		}

		view, err := hackpadfs.Sub(parent, dir)
		if err != nil {
			t.Fatal(err)
		}
		name := "m/f"
		full := "a/m/f"
		if dir == "." {
			name = full
		}
		want, err := hackpadfs.ReadFile(parent, full)
		if err != nil {
			t.Fatal(err)
		}
		got, err := hackpadfs.ReadFile(view, name)
		if err != nil {
			t.Fatal(err)
		}
		if string(got) != string(want) {
			t.Errorf("dir=%q: ReadFile(view, %q) = %q, ReadFile(parent, %q) = %q", dir, name, got, full, want)
		}

		// a write through the view lands in the hidden directory of the root FS, not in the mounted FS
		newName, newFull := "m/new", "a/m/new"
		if dir == "." {
			newName = newFull
		}
		if err := hackpadfs.WriteFullFile(view, newName, []byte("new"), 0600); err != nil {
			t.Fatal(err)
		}
		if _, err := hackpadfs.Stat(parent, newFull); err != nil {
			t.Errorf("dir=%q: file written through the view at %q is not visible in the parent at %q: %v", dir, newName, newFull, err)
		}
		if _, err := hackpadfs.Stat(root, "a/m/new"); err == nil {
			t.Errorf("dir=%q: write through the view changed the root FS's shadowed directory a/m, which is not part of the parent's tree", dir)
		}
	}
}
