package hackpadfs_test

import (
	"errors"
	"testing"

	"github.com/hack-pad/hackpadfs"
	"github.com/hack-pad/hackpadfs/mem"
)

// An error about an object outside the view is returned untranslated, where it
// reads as a statement about a (different) name inside the view.
func TestHuntSubErrorAboutOutsidePath(t *testing.T) {
	parent, err := mem.NewFS()
	if err != nil {
		t.Fatal(err)
	}
	// "f" is a regular file in the parent; the view's dir lies (invalidly) below it
	if err := hackpadfs.WriteFullFile(parent, "f", []byte("x"), 0600); err != nil {
		t.Fatal(err)
	}
	view, err := hackpadfs.Sub(parent, "f/b")
	if err != nil {
		t.Fatal(err)
	}
	err = hackpadfs.MkdirAll(view, "x", 0700)
	pathErr, ok := err.(*hackpadfs.PathError)
	if !ok {
		t.Fatalf("unexpected error %v", err)
	}
	// In the view's namespace the reported path must be "x", "." or marked as outside; "f" names f/b/f there.
	if pathErr.Path == "f" && errors.Is(err, hackpadfs.ErrNotDir) {
		_, statErr := hackpadfs.Stat(view, "f")
		t.Errorf("MkdirAll(view, \"x\") = %v: reports that \"f\" is not a directory, but in the view \"f\" is %v; the error is about the parent's f, outside dir f/b", err, statErr)
	}
}
