package mount_test

import (
	"testing"

	"github.com/hack-pad/hackpadfs"
	"github.com/hack-pad/hackpadfs/mem"
	"github.com/hack-pad/hackpadfs/mount"
)

// C03: every path Stat accepts has a parent that is a directory whose listing contains it.
// Renaming a directory that contains a mount point leaves the mount reachable by name only.
func TestHuntRenameDirAboveMountPoint(t *testing.T) {
	rootMem, err := mem.NewFS()
	if err != nil {
		t.Fatal(err)
	}
	if err := rootMem.MkdirAll("p/m", 0777); err != nil {
		t.Fatal(err)
	}
	mounted, err := mem.NewFS()
	if err != nil {
		t.Fatal(err)
	}
	if err := hackpadfs.WriteFullFile(mounted, "file", []byte("x"), 0666); err != nil {
		t.Fatal(err)
	}
	fs, err := mount.NewFS(rootMem)
	if err != nil {
		t.Fatal(err)
	}
	if err := fs.AddMount("p/m", mounted); err != nil {
		t.Fatal(err)
	}

	renameErr := hackpadfs.Rename(fs, "p", "q")

	for _, name := range []string{"p/m", "p/m/file"} {
		if _, err := hackpadfs.Stat(fs, name); err != nil {
			continue
		}
		if f, err := fs.Open(name); err == nil {
			_ = f.Close()
		}
		parent := "p"
		if name == "p/m/file" {
			parent = "p/m"
		}
		info, err := hackpadfs.Stat(fs, parent)
		if err != nil {
			t.Fatalf("Rename(p, q) = %v; Stat(%q) succeeds but its ancestor %q does not exist: %v", renameErr, name, parent, err)
		}
		if !info.IsDir() {
			t.Fatalf("Rename(p, q) = %v; Stat(%q) succeeds but %q is not a directory", renameErr, name, parent)
		}
	}
	// the mounted file system is no longer reachable from the root
	found := false
	_ = hackpadfs.WalkDir(fs, ".", func(p string, d hackpadfs.DirEntry, err error) error {
		if err == nil && d.Name() == "file" {
			found = true
		}
		return nil
	})
	if !found {
		t.Fatalf("Rename(p, q) = %v made the mounted file unreachable from the root", renameErr)
	}
}
