package hackpadfs_test

import (
	"testing"

	"github.com/hack-pad/hackpadfs"
	"github.com/hack-pad/hackpadfs/mem"
)

// C03: the root of a Sub view must exist and be a directory after every operation, including an attempt to remove the root.
func TestHuntSubRootRemovable(t *testing.T) {
	root, err := mem.NewFS()
	if err != nil {
		t.Fatal(err)
	}
	if err := root.Mkdir("d", 0777); err != nil {
		t.Fatal(err)
	}
	sub, err := hackpadfs.Sub(root, "d")
	if err != nil {
		t.Fatal(err)
	}
	if info, err := hackpadfs.Stat(sub, "."); err != nil || !info.IsDir() {
		t.Fatalf("precondition: root of the view must be a directory: %v", err)
	}

	rmErr := hackpadfs.Remove(sub, ".") // mem.FS itself refuses this with ErrPermission
	info, err := hackpadfs.Stat(sub, ".")
	if err != nil {
		t.Fatalf("after Remove(\".\") = %v the root of the Sub view no longer exists: %v", rmErr, err)
	}
	if !info.IsDir() {
		t.Fatalf("after Remove(\".\") = %v the root of the Sub view is not a directory", rmErr)
	}
	if _, err := sub.Open("."); err != nil {
		t.Fatalf("after Remove(\".\") = %v the root of the Sub view cannot be opened: %v", rmErr, err)
	}
}
