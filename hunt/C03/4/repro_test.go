package mount_test

import (
	"testing"

	"github.com/hack-pad/hackpadfs"
	"github.com/hack-pad/hackpadfs/mem"
	"github.com/hack-pad/hackpadfs/mount"
)

// C03: every path Stat accepts has a parent that is a directory whose listing contains it.
// RemoveAll on a mount.FS resolves the mount once and then recurses in the root file system only,
// deleting the directories that carry the mount points.
func TestHuntRemoveAllDeletesMountPointDirs(t *testing.T) {
	rootMem, err := mem.NewFS()
	if err != nil {
		t.Fatal(err)
	}
	if err := rootMem.MkdirAll("p/m", 0777); err != nil {
		t.Fatal(err)
	}
	mounted, err := mem.NewFS()
	if err != nil {
		t.Fatal(err)
	}
	if err := hackpadfs.WriteFullFile(mounted, "file", []byte("x"), 0666); err != nil {
		t.Fatal(err)
	}
	fs, err := mount.NewFS(rootMem)
	if err != nil {
		t.Fatal(err)
	}
	if err := fs.AddMount("p/m", mounted); err != nil {
		t.Fatal(err)
	}

	rmErr := hackpadfs.RemoveAll(fs, "p")

	if _, err := hackpadfs.Stat(fs, "p/m/file"); err != nil {
		return // everything below p is gone: fine
	}
	if _, err := hackpadfs.Stat(fs, "p/m"); err != nil {
		t.Fatalf("RemoveAll(p) = %v; p/m/file exists but p/m does not: %v", rmErr, err)
	}
	info, err := hackpadfs.Stat(fs, "p")
	if err != nil {
		t.Fatalf("RemoveAll(p) = %v; Stat(p/m) and Stat(p/m/file) still succeed but their ancestor p does not exist: %v", rmErr, err)
	}
	if !info.IsDir() {
		t.Fatalf("RemoveAll(p) = %v; p/m exists but p is not a directory", rmErr)
	}
	entries, err := hackpadfs.ReadDir(fs, "p")
	if err != nil {
		t.Fatal(err)
	}
	for _, e := range entries {
		if e.Name() == "m" {
			return
		}
	}
	t.Fatalf("RemoveAll(p) = %v; p/m exists but the listing of p does not contain it", rmErr)
}
