package hackpadfs_test

import (
	"testing"

	"github.com/hack-pad/hackpadfs"
	"github.com/hack-pad/hackpadfs/mem"
)

// C03: the root of every Sub view exists and is a directory.
func TestHuntSubOfMissingOrRegularFile(t *testing.T) {
	root, err := mem.NewFS()
	if err != nil {
		t.Fatal(err)
	}
	if err := hackpadfs.WriteFullFile(root, "f", []byte("x"), 0666); err != nil {
		t.Fatal(err)
	}
	for _, dir := range []string{"f", "missing"} {
		sub, err := hackpadfs.Sub(root, dir)
		if err != nil {
			continue // refusing the view is fine
		}
		info, err := hackpadfs.Stat(sub, ".")
		if err != nil {
			t.Errorf("Sub(%q) succeeded but the root of the view does not exist: %v", dir, err)
			continue
		}
		if !info.IsDir() {
			t.Errorf("Sub(%q) succeeded but the root of the view is not a directory (mode %v)", dir, info.Mode())
		}
	}
}
