package mount_test

import (
	"testing"

	"github.com/hack-pad/hackpadfs"
	"github.com/hack-pad/hackpadfs/mem"
	"github.com/hack-pad/hackpadfs/mount"
)

// C03: every path Stat accepts has a parent that is a directory whose listing contains it.
// AddMount accepts a mount point above an existing mount point; the deeper mount stays resolvable by name,
// but the directory that now is its parent (the root of the newer mount) does not list it.
func TestHuntAddMountAboveExistingMount(t *testing.T) {
	rootMem, err := mem.NewFS()
	if err != nil {
		t.Fatal(err)
	}
	if err := rootMem.MkdirAll("a/b", 0777); err != nil {
		t.Fatal(err)
	}
	fs, err := mount.NewFS(rootMem)
	if err != nil {
		t.Fatal(err)
	}
	deep, err := mem.NewFS()
	if err != nil {
		t.Fatal(err)
	}
	if err := fs.AddMount("a/b", deep); err != nil {
		t.Fatal(err)
	}
	upper, err := mem.NewFS()
	if err != nil {
		t.Fatal(err)
	}
	if err := fs.AddMount("a", upper); err != nil {
		return // refusing the second mount is fine
	}

	if _, err := hackpadfs.Stat(fs, "a/b"); err != nil {
		return // hidden consistently: fine
	}
	if f, err := fs.Open("a/b"); err != nil {
		t.Fatalf("Stat(a/b) succeeds but Open fails: %v", err)
	} else {
		_ = f.Close()
	}
	entries, err := hackpadfs.ReadDir(fs, "a")
	if err != nil {
		t.Fatal(err)
	}
	for _, e := range entries {
		if e.Name() == "b" {
			return
		}
	}
	t.Fatalf("Stat(a/b) and Open(a/b) succeed but the listing of a (%d entries) does not contain b", len(entries))
}
