package mem_test

import (
	"os"
	"path/filepath"
	"testing"

	"github.com/hack-pad/hackpadfs"
	"github.com/hack-pad/hackpadfs/mem"
)

// A handle from OpenFile is kept, the file is Chmod-ed by name, then one byte is written through the handle.
// With os the new permission bits stay; on the in-memory FS the write puts the old permission bits back.
func TestHuntChmodRevertedByOlderHandle(t *testing.T) {
	dir := t.TempDir()
	name := filepath.Join(dir, "a")
	if err := os.WriteFile(name, []byte("abc"), 0644); err != nil {
		t.Fatal(err)
	}
	if err := os.Chmod(name, 0644); err != nil { // independent of umask
		t.Fatal(err)
	}
	of, err := os.OpenFile(name, os.O_RDWR, 0)
	if err != nil {
		t.Fatal(err)
	}
	defer of.Close()
	if err := os.Chmod(name, 0600); err != nil {
		t.Fatal(err)
	}
	if _, err := of.Write([]byte("x")); err != nil {
		t.Fatal(err)
	}
	osInfo, err := os.Stat(name)
	if err != nil {
		t.Fatal(err)
	}

	m, err := mem.NewFS()
	if err != nil {
		t.Fatal(err)
	}
	if err := hackpadfs.WriteFullFile(m, "a", []byte("abc"), 0644); err != nil {
		t.Fatal(err)
	}
	mf, err := hackpadfs.OpenFile(m, "a", hackpadfs.FlagReadWrite, 0)
	if err != nil {
		t.Fatal(err)
	}
	defer mf.Close()
	if err := hackpadfs.Chmod(m, "a", 0600); err != nil {
		t.Fatal(err)
	}
	if _, err := hackpadfs.WriteFile(mf, []byte("x")); err != nil {
		t.Fatal(err)
	}
	memInfo, err := hackpadfs.Stat(m, "a")
	if err != nil {
		t.Fatal(err)
	}

	if osInfo.Mode().Perm() != memInfo.Mode().Perm() {
		t.Errorf("permission bits after OpenFile, Chmod(0600), write through the handle: os = %v, mem = %v", osInfo.Mode().Perm(), memInfo.Mode().Perm())
	}
}
