package mem_test

import (
	"os"
	"path/filepath"
	"syscall"
	"testing"

	"github.com/hack-pad/hackpadfs"
	"github.com/hack-pad/hackpadfs/mem"
)

// Creating with a permission argument that carries ModeSticky / ModeSetuid / ModeSetgid:
// os passes these bits to the kernel and the created entry has them (as Chmod would set them);
// the in-memory FS drops them on creation although it does track them for Chmod.
func TestHuntSpecialModeBitsDroppedOnCreate(t *testing.T) {
	old := syscall.Umask(0)
	defer syscall.Umask(old)
	const mask = hackpadfs.ModePerm | hackpadfs.ModeSetuid | hackpadfs.ModeSetgid | hackpadfs.ModeSticky

	dir := t.TempDir()
	m, err := mem.NewFS()
	if err != nil {
		t.Fatal(err)
	}

	// Mkdir with the sticky bit (like /tmp)
	if err := os.Mkdir(filepath.Join(dir, "d"), hackpadfs.ModeSticky|0777); err != nil {
		t.Fatal(err)
	}
	if err := hackpadfs.Mkdir(m, "d", hackpadfs.ModeSticky|0777); err != nil {
		t.Fatal(err)
	}
	// OpenFile(O_CREATE) with setgid
	of, err := os.OpenFile(filepath.Join(dir, "f"), os.O_CREATE|os.O_WRONLY, hackpadfs.ModeSetgid|0755)
	if err != nil {
		t.Fatal(err)
	}
	of.Close()
	mf, err := hackpadfs.OpenFile(m, "f", hackpadfs.FlagCreate|hackpadfs.FlagWriteOnly, hackpadfs.ModeSetgid|0755)
	if err != nil {
		t.Fatal(err)
	}
	mf.Close()

	for _, name := range []string{"d", "f"} {
		osInfo, err := os.Stat(filepath.Join(dir, name))
		if err != nil {
			t.Fatal(err)
		}
		memInfo, err := hackpadfs.Stat(m, name)
		if err != nil {
			t.Fatal(err)
		}
		if osInfo.Mode()&mask != memInfo.Mode()&mask {
			t.Errorf("%s: os mode = %v, mem mode = %v", name, osInfo.Mode(), memInfo.Mode())
		}
	}
}
