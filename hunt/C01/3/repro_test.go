package mem_test

import (
	"os"
	"path/filepath"
	"testing"
	"time"

	"github.com/hack-pad/hackpadfs"
	"github.com/hack-pad/hackpadfs/mem"
)

// Chtimes with a zero time instant that carries a Location (t.IsZero() is true, but t != time.Time{}):
// os.Chtimes leaves the modification time unchanged, the in-memory FS overwrites it with year 1.
func TestHuntChtimesZeroTimeWithLocation(t *testing.T) {
	set := time.Date(2005, 1, 2, 3, 4, 5, 0, time.UTC)
	zero := time.Time{}.In(time.FixedZone("x", 3600)) // same for time.Time{}.Local()
	if !zero.IsZero() {
		t.Fatal("expected a zero time")
	}

	dir := t.TempDir()
	name := filepath.Join(dir, "a")
	if err := os.WriteFile(name, []byte("x"), 0644); err != nil {
		t.Fatal(err)
	}
	if err := os.Chtimes(name, set, set); err != nil {
		t.Fatal(err)
	}
	osErr := os.Chtimes(name, zero, zero)
	osInfo, err := os.Stat(name)
	if err != nil {
		t.Fatal(err)
	}

	m, err := mem.NewFS()
	if err != nil {
		t.Fatal(err)
	}
	if err := hackpadfs.WriteFullFile(m, "a", []byte("x"), 0644); err != nil {
		t.Fatal(err)
	}
	if err := hackpadfs.Chtimes(m, "a", set, set); err != nil {
		t.Fatal(err)
	}
	memErr := hackpadfs.Chtimes(m, "a", zero, zero)
	memInfo, err := hackpadfs.Stat(m, "a")
	if err != nil {
		t.Fatal(err)
	}

	if (osErr == nil) != (memErr == nil) {
		t.Fatalf("os err = %v, mem err = %v", osErr, memErr)
	}
	if !osInfo.ModTime().Equal(memInfo.ModTime()) {
		t.Errorf("mtime after Chtimes(zero-with-location): os = %v, mem = %v", osInfo.ModTime(), memInfo.ModTime())
	}
}
