package mem_test

import (
	"os"
	"path/filepath"
	"testing"
	"time"

	"github.com/hack-pad/hackpadfs"
	"github.com/hack-pad/hackpadfs/mem"
)

// Truncating open (O_TRUNC, and therefore WriteFullFile with empty data) of a file that is already empty:
// os stamps a new modification time, the in-memory FS keeps the one set earlier through Chtimes.
func TestHuntTruncateEmptyFileKeepsOldModTime(t *testing.T) {
	set := time.Date(2005, 1, 2, 3, 4, 5, 0, time.UTC)

	dir := t.TempDir()
	name := filepath.Join(dir, "a")
	if err := os.WriteFile(name, nil, 0644); err != nil {
		t.Fatal(err)
	}
	if err := os.Chtimes(name, set, set); err != nil {
		t.Fatal(err)
	}
	if err := os.WriteFile(name, nil, 0644); err != nil { // O_WRONLY|O_CREATE|O_TRUNC
		t.Fatal(err)
	}
	osInfo, err := os.Stat(name)
	if err != nil {
		t.Fatal(err)
	}

	m, err := mem.NewFS()
	if err != nil {
		t.Fatal(err)
	}
	if err := hackpadfs.WriteFullFile(m, "a", nil, 0644); err != nil {
		t.Fatal(err)
	}
	if err := hackpadfs.Chtimes(m, "a", set, set); err != nil {
		t.Fatal(err)
	}
	if err := hackpadfs.WriteFullFile(m, "a", nil, 0644); err != nil {
		t.Fatal(err)
	}
	memInfo, err := hackpadfs.Stat(m, "a")
	if err != nil {
		t.Fatal(err)
	}

	osStillSet := osInfo.ModTime().Equal(set)
	memStillSet := memInfo.ModTime().Equal(set)
	if osStillSet != memStillSet {
		t.Errorf("mtime after re-truncating an empty file whose mtime was set to %v: os = %v, mem = %v", set, osInfo.ModTime(), memInfo.ModTime())
	}
}
