package mem_test

import (
	"os"
	"path/filepath"
	"testing"

	"github.com/hack-pad/hackpadfs"
	"github.com/hack-pad/hackpadfs/mem"
)

// ReadFile of a directory: os.ReadFile fails with EISDIR, the in-memory FS returns empty data and no error.
func TestHuntReadFileOnDirectory(t *testing.T) {
	dir := t.TempDir()
	if err := os.Mkdir(filepath.Join(dir, "d"), 0755); err != nil {
		t.Fatal(err)
	}
	osData, osErr := os.ReadFile(filepath.Join(dir, "d"))

	m, err := mem.NewFS()
	if err != nil {
		t.Fatal(err)
	}
	if err := hackpadfs.Mkdir(m, "d", 0755); err != nil {
		t.Fatal(err)
	}
	memData, memErr := hackpadfs.ReadFile(m, "d")

	if (osErr == nil) != (memErr == nil) {
		t.Errorf("ReadFile(directory): os = (%q, %v), mem = (%q, %v)", osData, osErr, memData, memErr)
	}
}
