package mem_test

import (
	"os"
	"path/filepath"
	"testing"

	"github.com/hack-pad/hackpadfs"
	"github.com/hack-pad/hackpadfs/mem"
)

// A handle is kept, the file is removed and a new file is created under the same name;
// a write through the old handle must not touch the new file (os), but replaces it on the in-memory FS.
func TestHuntOldHandleReplacesRecreatedFile(t *testing.T) {
	dir := t.TempDir()
	name := filepath.Join(dir, "a")
	if err := os.WriteFile(name, []byte("abc"), 0644); err != nil {
		t.Fatal(err)
	}
	of, err := os.OpenFile(name, os.O_RDWR, 0)
	if err != nil {
		t.Fatal(err)
	}
	defer of.Close()
	if err := os.Remove(name); err != nil {
		t.Fatal(err)
	}
	if err := os.WriteFile(name, []byte("new"), 0644); err != nil {
		t.Fatal(err)
	}
	if _, err := of.Write([]byte("x")); err != nil {
		t.Fatal(err)
	}
	osData, err := os.ReadFile(name)
	if err != nil {
		t.Fatal(err)
	}

	m, err := mem.NewFS()
	if err != nil {
		t.Fatal(err)
	}
	if err := hackpadfs.WriteFullFile(m, "a", []byte("abc"), 0644); err != nil {
		t.Fatal(err)
	}
	mf, err := hackpadfs.OpenFile(m, "a", hackpadfs.FlagReadWrite, 0)
	if err != nil {
		t.Fatal(err)
	}
	defer mf.Close()
	if err := hackpadfs.Remove(m, "a"); err != nil {
		t.Fatal(err)
	}
	if err := hackpadfs.WriteFullFile(m, "a", []byte("new"), 0644); err != nil {
		t.Fatal(err)
	}
	if _, err := hackpadfs.WriteFile(mf, []byte("x")); err != nil {
		t.Fatal(err)
	}
	memData, err := hackpadfs.ReadFile(m, "a")
	if err != nil {
		t.Fatal(err)
	}

	if string(osData) != string(memData) {
		t.Errorf("contents of the re-created file after a write through the old handle: os = %q, mem = %q", osData, memData)
	}
}
