package mem_test

import (
	"os"
	"path/filepath"
	"testing"

	"github.com/hack-pad/hackpadfs"
	"github.com/hack-pad/hackpadfs/mem"
)

// The FileInfo returned by Stat is a snapshot with os; on the in-memory FS its Size() follows later writes.
func TestHuntStatInfoSizeNotASnapshot(t *testing.T) {
	dir := t.TempDir()
	name := filepath.Join(dir, "a")
	if err := os.WriteFile(name, []byte("abc"), 0644); err != nil {
		t.Fatal(err)
	}
	osInfo, err := os.Stat(name)
	if err != nil {
		t.Fatal(err)
	}
	if err := os.WriteFile(name, []byte("abcdef"), 0644); err != nil {
		t.Fatal(err)
	}

	m, err := mem.NewFS()
	if err != nil {
		t.Fatal(err)
	}
	if err := hackpadfs.WriteFullFile(m, "a", []byte("abc"), 0644); err != nil {
		t.Fatal(err)
	}
	memInfo, err := hackpadfs.Stat(m, "a")
	if err != nil {
		t.Fatal(err)
	}
	if err := hackpadfs.WriteFullFile(m, "a", []byte("abcdef"), 0644); err != nil {
		t.Fatal(err)
	}

	if osInfo.Size() != memInfo.Size() {
		t.Errorf("Size() of the FileInfo returned by Stat when the file held 3 bytes: os = %d, mem = %d", osInfo.Size(), memInfo.Size())
	}
}
