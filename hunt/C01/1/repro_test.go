package mem_test

import (
	"os"
	"path/filepath"
	"testing"

	"github.com/hack-pad/hackpadfs"
	"github.com/hack-pad/hackpadfs/mem"
)

// RemoveAll of a path that runs through a regular file: os.RemoveAll fails with ENOTDIR,
// the in-memory FS reports success.
func TestHuntRemoveAllThroughRegularFile(t *testing.T) {
	dir := t.TempDir()
	if err := os.WriteFile(filepath.Join(dir, "a"), []byte("x"), 0644); err != nil {
		t.Fatal(err)
	}
	osErr := os.RemoveAll(filepath.Join(dir, "a", "b"))

	m, err := mem.NewFS()
	if err != nil {
		t.Fatal(err)
	}
	if err := hackpadfs.WriteFullFile(m, "a", []byte("x"), 0644); err != nil {
		t.Fatal(err)
	}
	memErr := hackpadfs.RemoveAll(m, "a/b")

	if (osErr == nil) != (memErr == nil) {
		t.Errorf("RemoveAll(\"a/b\") with regular file \"a\": os err = %v, mem err = %v", osErr, memErr)
	}
}
