package tar_test

import (
	gotar "archive/tar"
	"bytes"
	"context"
	"errors"
	"testing"

	"github.com/hack-pad/hackpadfs"
	"github.com/hack-pad/hackpadfs/tar"
)

// A valid name must never be refused as invalid. When the archive contains one entry whose name the
// unarchive FS rejects (here "../evil", which resolvePath leaves untouched), every later Open of ANY
// valid name - even of an entry that was unpacked fine - fails with an error matching ErrInvalid.
func TestHuntValidNameRefusedAsInvalidAfterBadEntry(t *testing.T) {
	var buf bytes.Buffer
	w := gotar.NewWriter(&buf)
	for _, e := range []struct{ name, body string }{
		{"ok.txt", "hello"},
		{"../evil", "x"},
	} {
		if err := w.WriteHeader(&gotar.Header{Name: e.name, Typeflag: gotar.TypeReg, Mode: 0644, Size: int64(len(e.body))}); err != nil {
			t.Fatal(err)
		}
		if _, err := w.Write([]byte(e.body)); err != nil {
			t.Fatal(err)
		}
	}
	if err := w.Close(); err != nil {
		t.Fatal(err)
	}

	fs, err := tar.NewReaderFS(context.Background(), &buf, tar.ReaderFSOptions{})
	if err != nil {
		t.Fatal(err)
	}
	<-fs.Done()

	for _, name := range []string{"ok.txt", ".", "does-not-exist"} {
		if !hackpadfs.ValidPath(name) {
			t.Fatalf("%q must be valid", name)
		}
		f, err := fs.Open(name)
		if err == nil {
			_ = f.Close()
			continue
		}
		if errors.Is(err, hackpadfs.ErrInvalid) {
			t.Errorf("Open(%q): valid name refused with an error matching ErrInvalid: %v", name, err)
		}
	}
}
