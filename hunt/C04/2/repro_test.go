package hackpadfs_test

import (
	"errors"
	"testing"

	"github.com/hack-pad/hackpadfs"
	"github.com/hack-pad/hackpadfs/cache"
	"github.com/hack-pad/hackpadfs/mem"
	"github.com/hack-pad/hackpadfs/mount"
)

// An invalid name given to a package helper must be refused with ErrInvalid.
// When the file system (or, for a mount/sub file system, the root the invalid name is delegated to)
// does not implement the operation, the helpers answer ErrNotImplemented instead and never look at the name.
func TestHuntInvalidNameGetsNotImplemented(t *testing.T) {
	newMem := func() *mem.FS {
		m, err := mem.NewFS()
		if err != nil {
			t.Fatal(err)
		}
		if err := m.Mkdir("mnt", 0755); err != nil {
			t.Fatal(err)
		}
		if err := hackpadfs.WriteFullFile(m, "f", []byte("x"), 0644); err != nil {
			t.Fatal(err)
		}
		return m
	}
	check := func(what string, err error) {
		t.Helper()
		if err == nil || !errors.Is(err, hackpadfs.ErrInvalid) {
			t.Errorf("%s: want an error matching ErrInvalid, got %v", what, err)
		}
	}

	m := newMem()
	_, err := hackpadfs.Lstat(m, "/f")
	check(`Lstat(mem, "/f")`, err)
	check(`Symlink(mem, "f", "../g")`, hackpadfs.Symlink(m, "f", "../g"))

	sub, err := hackpadfs.Sub(newMem(), "mnt")
	if err != nil {
		t.Fatal(err)
	}
	check(`Rename(Sub(mem,"mnt"), "../f", "g")`, hackpadfs.Rename(sub, "../f", "g"))

	// mount file system with a read-only root and a writable mem FS mounted at "mnt":
	// Mkdir("mnt/ok") works, Mkdir("mnt/../x") is answered with "not implemented"
	cacheStore, err := mem.NewFS()
	if err != nil {
		t.Fatal(err)
	}
	readOnlyRoot, err := cache.NewReadOnlyFS(newMem(), cacheStore, cache.ReadOnlyOptions{})
	if err != nil {
		t.Fatal(err)
	}
	mnt, err := mount.NewFS(readOnlyRoot)
	if err != nil {
		t.Fatal(err)
	}
	if err := mnt.AddMount("mnt", newMem()); err != nil {
		t.Fatal(err)
	}
	if err := hackpadfs.Mkdir(mnt, "mnt/ok", 0755); err != nil {
		t.Fatal(err)
	}
	check(`Mkdir(mount, "mnt/../x")`, hackpadfs.Mkdir(mnt, "mnt/../x", 0755))
	check(`Mkdir(mount, "mnt/ok/")`, hackpadfs.Mkdir(mnt, "mnt/ok/", 0755))
	check(`Remove(mount, "/mnt/ok")`, hackpadfs.Remove(mnt, "/mnt/ok"))
	check(`WriteFullFile(mount, "mnt//w")`, hackpadfs.WriteFullFile(mnt, "mnt//w", []byte("w"), 0644))
}
