package mem_test

import (
	"errors"
	"testing"

	"github.com/hack-pad/hackpadfs"
	"github.com/hack-pad/hackpadfs/mem"
)

// Both names are valid FS paths, yet the operation is refused with an error matching ErrInvalid
// (the same code an invalid name gets), so a caller cannot tell "bad name" from "bad move".
func TestHuntRenameValidNamesRefusedAsInvalid(t *testing.T) {
	fs, err := mem.NewFS()
	if err != nil {
		t.Fatal(err)
	}
	if err := fs.MkdirAll("d/e", 0755); err != nil {
		t.Fatal(err)
	}
	oldname, newname := "d", "d/e/x"
	if !hackpadfs.ValidPath(oldname) || !hackpadfs.ValidPath(newname) {
		t.Fatal("names must be valid")
	}
	err = fs.Rename(oldname, newname)
	if err == nil {
		t.Fatal("expected the move of a directory into itself to fail")
	}
	if errors.Is(err, hackpadfs.ErrInvalid) {
		t.Errorf("Rename(%q, %q): two valid names refused with an error matching ErrInvalid: %v", oldname, newname, err)
	}
}
