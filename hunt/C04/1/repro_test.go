//go:build !wasm
// +build !wasm

package os

import (
	"errors"
	"strings"
	"testing"

	"github.com/hack-pad/hackpadfs"
)

// On the Windows configuration of os.FS (exercised through the library's own goos/separator-parameterised
// conversion, the one every method uses via rootedPath), a valid single-element name containing a backslash
// must either stay one path element below the FS root or never be used; it must not be split into several
// OS path elements, and must never address something outside the Sub() root.
func TestHuntWindowsBackslashNameBecomesSeparator(t *testing.T) {
	fs := &FS{root: "jail"}
	const rootPrefix = `C:\jail\`
	for _, name := range []string{`a\b`, `..\..\secret`, `sub\..\..\..\secret`} {
		if !hackpadfs.ValidPath(name) || strings.Contains(name, "/") {
			t.Fatalf("%q is expected to be a valid single-element FS path", name)
		}
		osPath, err := fs.toOSPath(goosWindows, '\\', "open", name)
		if err != nil {
			// refusing it contradicts "a valid name is never refused as invalid", but at least nothing is addressed
			if !errors.Is(err, hackpadfs.ErrInvalid) {
				t.Errorf("toOSPath(%q): unexpected error %v", name, err)
			}
			continue
		}
		if !strings.HasPrefix(osPath, rootPrefix) {
			t.Errorf("toOSPath(%q) = %q: not below the FS root %q", name, osPath, rootPrefix)
			continue
		}
		if rest := strings.TrimPrefix(osPath, rootPrefix); strings.Contains(rest, `\`) {
			t.Errorf("toOSPath(%q) = %q: the backslash inside the single element %q is used as an OS path separator (elements below root: %q)",
				name, osPath, name, strings.Split(rest, `\`))
		}
	}
}
