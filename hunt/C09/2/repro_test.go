//go:build !wasm
// +build !wasm

package os

import (
	"errors"
	"os"
	"path/filepath"
	"strings"
	"testing"

	"github.com/hack-pad/hackpadfs"
)

// DirEntry values returned by ReadDir are the raw os entries. Their Info() method lstat()s lazily,
// so when the file has gone in the meantime the OS error surfaces unwrapped and names the absolute
// OS path instead of the caller's FS-relative path.
func TestHuntDirEntryInfoErrorLeaksOSPath(t *testing.T) {
	tmp, err := filepath.EvalSymlinks(t.TempDir())
	if err != nil {
		t.Fatal(err)
	}
	if err := os.MkdirAll(filepath.Join(tmp, "root", "dir"), 0o755); err != nil {
		t.Fatal(err)
	}
	if err := os.WriteFile(filepath.Join(tmp, "root", "dir", "file"), []byte("x"), 0o644); err != nil {
		t.Fatal(err)
	}
	rootFS, err := NewFS().FromOSPath(filepath.Join(tmp, "root"))
	if err != nil {
		t.Fatal(err)
	}
	sub, err := NewFS().Sub(rootFS)
	if err != nil {
		t.Fatal(err)
	}
	fs := sub.(*FS)

	entries, err := fs.ReadDir("dir")
	if err != nil || len(entries) != 1 {
		t.Fatal(entries, err)
	}
	if err := fs.Remove("dir/file"); err != nil {
		t.Fatal(err)
	}
	_, err = entries[0].Info()
	if err == nil {
		t.Skip("platform's DirEntry caches Info; nothing to observe")
	}
	var pe *hackpadfs.PathError
	if !errors.As(err, &pe) {
		t.Fatalf("unexpected error type %T: %v", err, err)
	}
	if pe.Path != "dir/file" {
		t.Errorf("error from OS names %q, want the FS-relative path %q", pe.Path, "dir/file")
	}
	if strings.HasPrefix(pe.Path, tmp) {
		t.Errorf("error leaks the OS root directory: %v", err)
	}
}
