//go:build !wasm
// +build !wasm

package os

import (
	"errors"
	"os"
	"path/filepath"
	"strings"
	"testing"

	"github.com/hack-pad/hackpadfs"
)

// os.MkdirAll walks up through the ancestors of its argument. When the failing component is an
// ancestor of the FS root (here: a regular file), the PathError names a path above the root, which
// wrapRelPathErr passes through untouched: the caller sees an absolute OS path.
func TestHuntMkdirAllErrorAboveRootLeaksOSPath(t *testing.T) {
	tmp, err := filepath.EvalSymlinks(t.TempDir())
	if err != nil {
		t.Fatal(err)
	}
	if err := os.WriteFile(filepath.Join(tmp, "f"), []byte("x"), 0o644); err != nil {
		t.Fatal(err)
	}
	tmpFS, err := NewFS().FromOSPath(tmp)
	if err != nil {
		t.Fatal(err)
	}
	sub, err := NewFS().Sub(tmpFS + "/f/sub")
	if err != nil {
		t.Fatal(err)
	}
	fs := sub.(*FS)

	err = fs.MkdirAll("a/b", 0o755)
	if err == nil {
		t.Fatal("expected an error: an ancestor of the root is a regular file")
	}
	var pe *hackpadfs.PathError
	if !errors.As(err, &pe) {
		t.Fatalf("unexpected error type %T: %v", err, err)
	}
	if !hackpadfs.ValidPath(pe.Path) || strings.HasPrefix(pe.Path, string(filepath.Separator)) {
		t.Errorf("MkdirAll(%q) error names %q, which is not an FS-relative path of this FS (full error: %v)", "a/b", pe.Path, err)
	}
}
