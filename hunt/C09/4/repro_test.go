//go:build !wasm && !windows
// +build !wasm,!windows

package os

import (
	"testing"
)

// FromOSPath is documented (and commented in the code) to map only clean OS paths, and to be the
// inverse of ToOSPath. Unclean spellings of the root directory, and a doubled leading separator when
// the root is empty, slip through the single unconditional TrimPrefix(fsPath, "/").
func TestHuntFromOSPathAcceptsUncleanPaths(t *testing.T) {
	top := NewFS()
	subFS, err := top.Sub("etc")
	if err != nil {
		t.Fatal(err)
	}
	sub := subFS.(*FS)

	for _, tc := range []struct {
		fs     *FS
		osPath string
	}{
		{top, "//etc"},       // empty element, root ""
		{top, "//etc/hosts"}, // empty element, root ""
		{top, "//"},          // empty element, root ""
		{top, "/."},          // "." element
		{sub, "/etc/"},       // trailing separator
		{sub, "/etc/."},      // "." element
	} {
		got, err := tc.fs.FromOSPath(tc.osPath)
		if err != nil {
			continue // refusing is what the sibling cases do ("/etc//hosts", "/etc/hosts/", "/etc/./hosts" are all refused)
		}
		back, err := tc.fs.ToOSPath(got)
		if err != nil {
			t.Errorf("FromOSPath(%q) = %q, which ToOSPath refuses: %v", tc.osPath, got, err)
			continue
		}
		if back != tc.osPath {
			t.Errorf("root %q: FromOSPath(%q) = %q but ToOSPath(%q) = %q: unclean OS path accepted, not inverse", tc.fs.root, tc.osPath, got, got, back)
		}
	}
	// sanity: the sibling spellings are indeed refused
	for _, p := range []string{"/etc//hosts", "/etc/hosts/", "/etc/./hosts", "/etc//"} {
		if got, err := sub.FromOSPath(p); err == nil {
			t.Logf("note: %q also accepted -> %q", p, got)
		}
	}
}
