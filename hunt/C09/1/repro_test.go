//go:build !wasm
// +build !wasm

package os

import (
	"strings"
	"testing"

	"github.com/hack-pad/hackpadfs"
)

// A backslash is an ordinary character in an io/fs path element, so `..\..\secret` passes ValidPath.
// Under the Windows convention toOSPath pastes it verbatim after the root, yielding an OS path whose
// `..` elements climb out of the Sub root.
func TestHuntWindowsBackslashNameEscapesRoot(t *testing.T) {
	top := &FS{} // volume defaults to C: for goos=windows
	sub, err := top.Sub("jail/inner")
	if err != nil {
		t.Fatal(err)
	}
	fs := sub.(*FS)
	const rootOS = `C:\jail\inner`

	for _, name := range []string{`..\..\secret`, `a\..\..\..\secret`, `x/..\..\..\secret`} {
		if !hackpadfs.ValidPath(name) {
			t.Fatalf("test premise: %q should be a valid FS path", name)
		}
		osPath, perr := fs.toOSPath(goosWindows, '\\', "open", name)
		if perr != nil {
			continue // refusing the name would be fine
		}
		// lexically resolve the Windows path
		var elems []string
		for _, e := range strings.FieldsFunc(strings.TrimPrefix(osPath, `C:`), func(r rune) bool { return r == '\\' || r == '/' }) {
			switch e {
			case ".":
			case "..":
				if len(elems) > 0 {
					elems = elems[:len(elems)-1]
				}
			default:
				elems = append(elems, e)
			}
		}
		resolved := `C:\` + strings.Join(elems, `\`)
		if resolved != rootOS && !strings.HasPrefix(resolved, rootOS+`\`) {
			t.Errorf("valid name %q maps to %q, which lexically resolves to %q: outside the root %q", name, osPath, resolved, rootOS)
		}
	}

	// the same character also breaks the ToOSPath/FromOSPath inverse on valid names
	name := `a\b`
	osPath, perr := fs.toOSPath(goosWindows, '\\', "ospath", name)
	if perr == nil {
		back, err := fs.fromOSPath(goosWindows, '\\', func(string) string { return `C:` }, "ospath", osPath)
		if err != nil || back != name {
			t.Errorf("round trip of valid name %q: %q -> %q, %v", name, osPath, back, err)
		}
	}
}
