package mem_test

import (
	"io"
	"os"
	"path/filepath"
	"testing"

	"github.com/hack-pad/hackpadfs"
	"github.com/hack-pad/hackpadfs/mem"
)

// After a file was removed, writing through a handle opened before the removal must not bring the removed file
// back under its old name -- also not when the name has meanwhile been given to a new file.
func TestHuntStaleHandleResurrectsRemovedFile(t *testing.T) {
	// reference: the real os package
	dir := t.TempDir()
	osPath := filepath.Join(dir, "a")
	if err := os.WriteFile(osPath, []byte("old-contents"), 0644); err != nil {
		t.Fatal(err)
	}
	osOld, err := os.OpenFile(osPath, os.O_RDWR, 0)
	if err != nil {
		t.Fatal(err)
	}
	defer osOld.Close()
	if err := os.Remove(osPath); err != nil {
		t.Fatal(err)
	}
	if err := os.WriteFile(osPath, []byte("new"), 0644); err != nil {
		t.Fatal(err)
	}
	if _, err := osOld.Write([]byte("X")); err != nil {
		t.Fatal(err)
	}
	want, err := os.ReadFile(osPath)
	if err != nil {
		t.Fatal(err)
	}

	fs, err := mem.NewFS()
	if err != nil {
		t.Fatal(err)
	}
	if err := hackpadfs.WriteFullFile(fs, "a", []byte("old-contents"), 0644); err != nil {
		t.Fatal(err)
	}
	old, err := fs.OpenFile("a", hackpadfs.FlagReadWrite, 0)
	if err != nil {
		t.Fatal(err)
	}
	defer old.Close()
	if err := fs.Remove("a"); err != nil {
		t.Fatal(err)
	}
	if err := hackpadfs.WriteFullFile(fs, "a", []byte("new"), 0644); err != nil {
		t.Fatal(err)
	}
	if _, err := old.(io.Writer).Write([]byte("X")); err != nil {
		t.Fatal(err)
	}
	got, err := hackpadfs.ReadFile(fs, "a")
	if err != nil {
		t.Fatal(err)
	}
	if string(got) != string(want) {
		t.Errorf("name \"a\" after writing through the handle of the removed file: got %q, want %q as with os (the removed file must stay gone)", got, want)
	}
}
