package mem_test

import (
	"errors"
	"os"
	"path/filepath"
	"testing"

	"github.com/hack-pad/hackpadfs"
	"github.com/hack-pad/hackpadfs/mem"
)

// A write-only handle that has been closed must report ErrClosed from Read, like a closed write-only os.File does.
func TestHuntClosedWriteOnlyRead(t *testing.T) {
	// reference: the real os package
	osPath := filepath.Join(t.TempDir(), "f")
	if err := os.WriteFile(osPath, []byte("hello"), 0644); err != nil {
		t.Fatal(err)
	}
	osFile, err := os.OpenFile(osPath, os.O_WRONLY, 0)
	if err != nil {
		t.Fatal(err)
	}
	if err := osFile.Close(); err != nil {
		t.Fatal(err)
	}
	_, osErr := osFile.Read(make([]byte, 1))
	if !errors.Is(osErr, os.ErrClosed) {
		t.Skipf("os.File does not report ErrClosed here: %v", osErr)
	}

	fs, err := mem.NewFS()
	if err != nil {
		t.Fatal(err)
	}
	if err := hackpadfs.WriteFullFile(fs, "f", []byte("hello"), 0644); err != nil {
		t.Fatal(err)
	}
	for _, flag := range []int{hackpadfs.FlagWriteOnly, hackpadfs.FlagWriteOnly | hackpadfs.FlagAppend} {
		f, err := fs.OpenFile("f", flag, 0)
		if err != nil {
			t.Fatal(err)
		}
		if err := f.Close(); err != nil {
			t.Fatal(err)
		}
		_, libErr := f.Read(make([]byte, 1))
		if !errors.Is(libErr, hackpadfs.ErrClosed) {
			t.Errorf("flag %#x: Read on closed write-only handle: got %v, want an error matching ErrClosed (os.File: %v)", flag, libErr, osErr)
		}
	}
}
