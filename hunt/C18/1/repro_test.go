package mem

import (
	"context"
	"errors"
	"testing"
	"time"

	"github.com/hack-pad/hackpadfs"
	"github.com/hack-pad/hackpadfs/keyvalue"
	"github.com/hack-pad/hackpadfs/keyvalue/blob"
)

var _ = errors.Is
var _ = hackpadfs.ErrNotExist

func huntC18Rec(s string) keyvalue.FileRecord {
	b := blob.NewBytes([]byte(s))
	return keyvalue.NewBaseFileRecord(int64(len(s)), time.Time{}, 0o644, nil, func() (blob.Blob, error) { return b, nil }, nil)
}

// A handler may "perform more operations" (keyvalue.Transaction doc). An operation issued from inside a
// handler is recorded BEFORE the operation whose handler is running, so Commit's results are out of call
// order and results[i].Op != i.
func TestHuntC18NestedOpResultsOutOfOrder(t *testing.T) {
	s := newStore()
	txn, err := s.Transaction(keyvalue.TransactionOptions{Mode: keyvalue.TransactionReadWrite})
	if err != nil {
		t.Fatal(err)
	}
	var inner keyvalue.OpID
	outer := txn.SetHandler("a", huntC18Rec("1"), nil, keyvalue.OpHandlerFunc(func(txn keyvalue.Transaction, r keyvalue.OpResult) error {
		inner = txn.Get("a")
		return nil
	}))
	results, err := txn.Commit(context.Background())
	if err != nil {
		t.Fatal(err)
	}
	if len(results) != 2 {
		t.Fatalf("want 2 results, got %d", len(results))
	}
	if outer != 0 || inner != 1 {
		t.Fatalf("unexpected op ids outer=%d inner=%d", outer, inner)
	}
	for i, r := range results {
		if r.Op != keyvalue.OpID(i) {
			t.Errorf("results[%d].Op = %d, want %d (results must be in call order with matching ids)", i, r.Op, i)
		}
	}
	if results[outer].Record != nil {
		t.Errorf("results[%d] (the Set) carries the Get's record", outer)
	}
	if results[inner].Record == nil {
		t.Errorf("results[%d] (the Get) carries no record", inner)
	}
}
