package mem

import (
	"context"
	"errors"
	"testing"
	"time"

	"github.com/hack-pad/hackpadfs"
	"github.com/hack-pad/hackpadfs/keyvalue"
	"github.com/hack-pad/hackpadfs/keyvalue/blob"
)

var _ = errors.Is
var _ = hackpadfs.ErrNotExist

func huntC18Rec(s string) keyvalue.FileRecord {
	b := blob.NewBytes([]byte(s))
	return keyvalue.NewBaseFileRecord(int64(len(s)), time.Time{}, 0o644, nil, func() (blob.Blob, error) { return b, nil }, nil)
}

// Set(path, record, contents): the contents argument is ignored; a later Get returns record.Data() instead.
func TestHuntC18SetContentsIgnored(t *testing.T) {
	s := newStore()
	txn, err := s.Transaction(keyvalue.TransactionOptions{Mode: keyvalue.TransactionReadWrite})
	if err != nil {
		t.Fatal(err)
	}
	txn.Set("a", huntC18Rec("old"), blob.NewBytes([]byte("new contents")))
	get := txn.Get("a")
	results, err := txn.Commit(context.Background())
	if err != nil || results[0].Err != nil || results[get].Err != nil {
		t.Fatal(err, results)
	}
	data, err := results[get].Record.Data()
	if err != nil {
		t.Fatal(err)
	}
	if got, want := string(data.Bytes()), "new contents"; got != want {
		t.Errorf("Get after Set(a, record, contents=%q) has data %q (size %d)", want, got, results[get].Record.Size())
	}
}
