package mem

import (
	"context"
	"errors"
	"testing"
	"time"

	"github.com/hack-pad/hackpadfs"
	"github.com/hack-pad/hackpadfs/keyvalue"
	"github.com/hack-pad/hackpadfs/keyvalue/blob"
)

var _ = errors.Is
var _ = hackpadfs.ErrNotExist

func huntC18Rec(s string) keyvalue.FileRecord {
	b := blob.NewBytes([]byte(s))
	return keyvalue.NewBaseFileRecord(int64(len(s)), time.Time{}, 0o644, nil, func() (blob.Blob, error) { return b, nil }, nil)
}

func huntC18Dir() keyvalue.FileRecord {
	b := blob.NewBytes(nil)
	return keyvalue.NewBaseFileRecord(0, time.Time{}, hackpadfs.ModeDir|0o755, nil, func() (blob.Blob, error) { return b, nil }, nil)
}

// The record a Get returns for a directory is not a snapshot: its listing is computed from the live
// store on demand, so it shows Sets made AFTER the Get - including those of another, still open transaction.
func TestHuntC18GetDirRecordSeesLaterSets(t *testing.T) {
	s := newStore()
	txn, err := s.Transaction(keyvalue.TransactionOptions{Mode: keyvalue.TransactionReadWrite})
	if err != nil {
		t.Fatal(err)
	}
	txn.Set("d", huntC18Dir(), nil)
	get := txn.Get("d")
	txn.Set("d/later", huntC18Rec("x"), nil) // made after the Get
	results, err := txn.Commit(context.Background())
	if err != nil || results[get].Err != nil {
		t.Fatal(err, results)
	}
	names, err := results[get].Record.ReadDirNames()
	if err != nil {
		t.Fatal(err)
	}
	if len(names) != 0 {
		t.Errorf("result of Get(d), made when d was empty, lists %v", names)
	}

	txn2, err := s.Transaction(keyvalue.TransactionOptions{Mode: keyvalue.TransactionReadWrite})
	if err != nil {
		t.Fatal(err)
	}
	txn2.Set("d/partial", huntC18Rec("y"), nil)
	names, _ = results[get].Record.ReadDirNames() // txn2 is still open
	for _, n := range names {
		if n == "partial" {
			t.Errorf("committed transaction's Get result shows the open transaction's uncommitted Set: %v", names)
		}
	}
	_ = txn2.Abort()
}
