package mem

import (
	"context"
	"errors"
	"testing"
	"time"

	"github.com/hack-pad/hackpadfs"
	"github.com/hack-pad/hackpadfs/keyvalue"
	"github.com/hack-pad/hackpadfs/keyvalue/blob"
)

var _ = errors.Is
var _ = hackpadfs.ErrNotExist

func huntC18Rec(s string) keyvalue.FileRecord {
	b := blob.NewBytes([]byte(s))
	return keyvalue.NewBaseFileRecord(int64(len(s)), time.Time{}, 0o644, nil, func() (blob.Blob, error) { return b, nil }, nil)
}

// Abort does not undo the Sets made before it: the next transaction observes the aborted
// transaction's partial effect.
func TestHuntC18AbortLeavesPartialEffects(t *testing.T) {
	s := newStore()
	txn, err := s.Transaction(keyvalue.TransactionOptions{Mode: keyvalue.TransactionReadWrite})
	if err != nil {
		t.Fatal(err)
	}
	txn.Set("a", huntC18Rec("1"), nil)
	txn.SetHandler("b", huntC18Rec("2"), nil, keyvalue.OpHandlerFunc(func(txn keyvalue.Transaction, r keyvalue.OpResult) error {
		return txn.Abort() // handler decides the transaction should not proceed
	}))
	txn.Set("c", huntC18Rec("3"), nil)
	_, _ = txn.Commit(context.Background())

	txn2, err := s.Transaction(keyvalue.TransactionOptions{Mode: keyvalue.TransactionReadOnly})
	if err != nil {
		t.Fatal(err)
	}
	txn2.Get("a")
	txn2.Get("b")
	txn2.Get("c")
	results, err := txn2.Commit(context.Background())
	if err != nil {
		t.Fatal(err)
	}
	for i, name := range []string{"a", "b", "c"} {
		if !errors.Is(results[i].Err, hackpadfs.ErrNotExist) {
			t.Errorf("a later transaction observes %q written by the aborted transaction (err=%v)", name, results[i].Err)
		}
	}
}
