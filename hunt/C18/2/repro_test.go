package keyvalue

import (
	"context"
	"testing"
	"time"

	"github.com/hack-pad/hackpadfs"
	"github.com/hack-pad/hackpadfs/keyvalue/blob"
)

type huntC18PlainStore struct{ m map[string]FileRecord }

func (s *huntC18PlainStore) Get(ctx context.Context, path string) (FileRecord, error) {
	r, ok := s.m[path]
	if !ok {
		return nil, hackpadfs.ErrNotExist
	}
	return r, nil
}

func (s *huntC18PlainStore) Set(ctx context.Context, path string, src FileRecord) error {
	if src == nil {
		delete(s.m, path)
	} else {
		s.m[path] = src
	}
	return nil
}

func huntC18Rec(s string) FileRecord {
	b := blob.NewBytes([]byte(s))
	return NewBaseFileRecord(int64(len(s)), time.Time{}, 0o644, nil, func() (blob.Blob, error) { return b, nil }, nil)
}

// Serial fallback: once the transaction was aborted (explicitly or from a handler), Commit returns
// (nil, context.Canceled): zero results for three calls. The in-memory transaction returns all three.
func TestHuntC18SerialCommitAfterAbortDropsResults(t *testing.T) {
	s := &huntC18PlainStore{m: map[string]FileRecord{}}
	txn, err := TransactionOrSerial(s, TransactionOptions{Mode: TransactionReadWrite})
	if err != nil {
		t.Fatal(err)
	}
	txn.Set("a", huntC18Rec("1"), nil) // op 0: applied
	txn.Get("a")                       // op 1: succeeds
	_ = txn.Abort()
	txn.Set("b", huntC18Rec("2"), nil) // op 2: no effect, error result
	results, err := txn.Commit(context.Background())
	if len(results) != 3 {
		t.Fatalf("Commit returned %d results (err=%v), want exactly one per call = 3", len(results), err)
	}
	for i, r := range results {
		if r.Op != OpID(i) {
			t.Errorf("results[%d].Op=%d", i, r.Op)
		}
	}
}
