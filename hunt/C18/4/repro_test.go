package mem

import (
	"context"
	"errors"
	"testing"
	"time"

	"github.com/hack-pad/hackpadfs"
	"github.com/hack-pad/hackpadfs/keyvalue"
	"github.com/hack-pad/hackpadfs/keyvalue/blob"
)

var _ = errors.Is
var _ = hackpadfs.ErrNotExist

func huntC18Rec(s string) keyvalue.FileRecord {
	b := blob.NewBytes([]byte(s))
	return keyvalue.NewBaseFileRecord(int64(len(s)), time.Time{}, 0o644, nil, func() (blob.Blob, error) { return b, nil }, nil)
}

// A failing handler's error is dropped when the operation itself already failed.
func TestHuntC18HandlerErrorDropped(t *testing.T) {
	s := newStore()
	txn, err := s.Transaction(keyvalue.TransactionOptions{Mode: keyvalue.TransactionReadOnly})
	if err != nil {
		t.Fatal(err)
	}
	herr := errors.New("handler failed")
	var seen error
	txn.GetHandler("missing", keyvalue.OpHandlerFunc(func(txn keyvalue.Transaction, r keyvalue.OpResult) error {
		seen = r.Err
		return herr
	}))
	results, err := txn.Commit(context.Background())
	if err != nil || len(results) != 1 {
		t.Fatal(err, results)
	}
	if !errors.Is(seen, hackpadfs.ErrNotExist) {
		t.Fatalf("handler saw %v", seen)
	}
	if !errors.Is(results[0].Err, herr) {
		t.Errorf("handler returned %q but the operation's error is %q", herr, results[0].Err)
	}
}
