//go:build wasm
// +build wasm

package idbblob

import (
	"bytes"
	"testing"

	"github.com/hack-pad/hackpadfs/keyvalue/blob"
)

// Run with: GOOS=js GOARCH=wasm go test -exec "$(go env GOROOT)/misc/wasm/go_js_wasm_exec" ./indexeddb/idbblob/ -run TestHunt

func TestHuntViewWriteInvisibleAfterBytes(t *testing.T) {
	b := FromBlob(blob.NewBytes([]byte{1, 2, 3, 4, 5}))
	v, err := b.View(1, 3)
	if err != nil {
		t.Fatal(err)
	}
	if got := b.Bytes(); !bytes.Equal(got, []byte{1, 2, 3, 4, 5}) {
		t.Fatal(got)
	}
	n, err := v.(blob.SetBlob).Set(blob.NewBytes([]byte{9, 9}), 0)
	if err != nil || n != 2 {
		t.Fatal(n, err)
	}
	if got := v.Bytes(); !bytes.Equal(got, []byte{9, 9}) {
		t.Fatal(got)
	}
	if got := b.Bytes(); !bytes.Equal(got, []byte{1, 9, 9, 4, 5}) {
		t.Errorf("write through a view is not visible in the original: got %v want [1 9 9 4 5]", got)
	}
}
