package blob

import "testing"

func TestHuntSetIntoEmptyBlob(t *testing.T) {
	b := NewBytes(nil)
	// offset 0 is in range 0..Len(); the []byte model gives n = copy(b[0:], src) = 0, no error
	n, err := b.Set(NewBytes([]byte{9}), 0)
	if err != nil || n != 0 {
		t.Errorf("empty.Set(src len 1, 0): n=%d err=%v, want n=0 err=nil", n, err)
	}
	// the same call at offset == Len() on a non-empty blob succeeds with n=0
	c := NewBytes([]byte{1})
	if n, err := c.Set(NewBytes([]byte{9}), 1); err != nil || n != 0 {
		t.Fatalf("n=%d err=%v", n, err)
	}
}
