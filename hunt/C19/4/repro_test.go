//go:build wasm
// +build wasm

package idbblob

import (
	"bytes"
	"testing"

	"github.com/hack-pad/hackpadfs/keyvalue/blob"
)

// Run with: GOOS=js GOARCH=wasm go test -exec "$(go env GOROOT)/misc/wasm/go_js_wasm_exec" ./indexeddb/idbblob/ -run TestHunt

var _ = bytes.Equal

func TestHuntFullViewIsTheOriginal(t *testing.T) {
	b := FromBlob(blob.NewBytes([]byte{1, 2, 3, 4, 5}))
	v, err := b.View(0, 5)
	if err != nil {
		t.Fatal(err)
	}
	if err := v.(blob.TruncateBlob).Truncate(2); err != nil {
		t.Fatal(err)
	}
	if b.Len() != 5 {
		t.Errorf("truncating the view [0,5) changed the original's length to %d (a view [0,4) leaves it at 5)", b.Len())
	}
	if err := v.(blob.GrowBlob).Grow(10); err != nil {
		t.Fatal(err)
	}
	if b.Len() != 5 {
		t.Errorf("growing the view changed the original's length to %d", b.Len())
	}
}
