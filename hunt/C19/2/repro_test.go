//go:build wasm
// +build wasm

package idbblob

import (
	"bytes"
	"testing"

	"github.com/hack-pad/hackpadfs/keyvalue/blob"
)

// Run with: GOOS=js GOARCH=wasm go test -exec "$(go env GOROOT)/misc/wasm/go_js_wasm_exec" ./indexeddb/idbblob/ -run TestHunt

func TestHuntFirstBytesIsNotACopy(t *testing.T) {
	b := FromBlob(blob.NewBytes([]byte{1, 2, 3, 4, 5}))
	got := b.Bytes()
	got[0] = 77 // Bytes() must be an independent copy
	if again := b.Bytes(); !bytes.Equal(again, []byte{1, 2, 3, 4, 5}) {
		t.Errorf("mutating the slice returned by Bytes() changed the blob: %v", again)
	}
}
