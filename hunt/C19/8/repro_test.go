package blob

import (
	"bytes"
	"testing"
)

func TestHuntGrowViewClobbersOriginal(t *testing.T) {
	b := NewBytes([]byte{1, 2, 3, 4, 5})
	v, err := b.View(0, 2)
	if err != nil {
		t.Fatal(err)
	}
	if err := v.(GrowBlob).Grow(2); err != nil {
		t.Fatal(err)
	}
	if got := v.Bytes(); !bytes.Equal(got, []byte{1, 2, 0, 0}) {
		t.Fatal(got)
	}
	if got := b.Bytes(); !bytes.Equal(got, []byte{1, 2, 3, 4, 5}) {
		t.Errorf("growing a view of [0,2) overwrote bytes 2..3 of the original: got %v want [1 2 3 4 5]", got)
	}
}
