//go:build wasm
// +build wasm

package idbblob

import (
	"bytes"
	"testing"

	"github.com/hack-pad/hackpadfs/keyvalue/blob"
)

// Run with: GOOS=js GOARCH=wasm go test -exec "$(go env GOROOT)/misc/wasm/go_js_wasm_exec" ./indexeddb/idbblob/ -run TestHunt

func TestHuntSetLongSource(t *testing.T) {
	b := FromBlob(blob.NewBytes([]byte{1, 2, 3, 4, 5}))
	n, err := b.Set(blob.NewBytes([]byte{9, 9, 9}), 3) // model: n = copy(b[3:], src) = 2
	if err != nil || n != 2 {
		t.Errorf("Set(src len 3, offset 3) on len 5: n=%d err=%v, want n=2 err=nil (as blob.Bytes does)", n, err)
	}
	if got := b.Bytes(); !bytes.Equal(got, []byte{1, 2, 3, 9, 9}) {
		t.Errorf("got %v want [1 2 3 9 9]", got)
	}
	// reference: byte-slice implementation
	ref := blob.NewBytes([]byte{1, 2, 3, 4, 5})
	rn, rerr := ref.Set(blob.NewBytes([]byte{9, 9, 9}), 3)
	if rn != n || (rerr == nil) != (err == nil) {
		t.Errorf("implementations disagree: Bytes n=%d err=%v, idbblob n=%d err=%v", rn, rerr, n, err)
	}
}
