//go:build wasm
// +build wasm

package idbblob

import (
	"bytes"
	"testing"

	"github.com/hack-pad/hackpadfs/keyvalue/blob"
)

// Run with: GOOS=js GOARCH=wasm go test -exec "$(go env GOROOT)/misc/wasm/go_js_wasm_exec" ./indexeddb/idbblob/ -run TestHunt

func TestHuntTruncateNegativeModifies(t *testing.T) {
	b := FromBlob(blob.NewBytes([]byte{1, 2, 3, 4, 5}))
	err := b.Truncate(-1)
	if b.Len() != 5 {
		t.Errorf("Truncate(-1) (err=%v) changed Len() from 5 to %d", err, b.Len())
	}
	var got []byte
	func() {
		defer func() {
			if r := recover(); r != nil {
				t.Errorf("Bytes() panicked after Truncate(-1): %v", r)
			}
		}()
		got = b.Bytes()
	}()
	if !bytes.Equal(got, []byte{1, 2, 3, 4, 5}) {
		t.Errorf("Truncate(-1) modified the blob: %v", got)
	}
}
