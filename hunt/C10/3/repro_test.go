package cache_test

import (
	"fmt"
	"os"
	"path/filepath"
	"strings"
	"testing"

	"github.com/hack-pad/hackpadfs"
	"github.com/hack-pad/hackpadfs/cache"
	"github.com/hack-pad/hackpadfs/mem"
	hackpados "github.com/hack-pad/hackpadfs/os"
)

// Paged ReadDir on a directory handle: the cache re-lists the directory through the sorted
// hackpadfs.ReadDir helper, the source's handle lists in directory order, so the same ReadDir(n)
// call returns different names on the cache than on the source.
func TestHuntC10PagedReadDirOrder(t *testing.T) {
	dir := t.TempDir()
	for i := 0; i < 40; i++ {
		if err := os.WriteFile(filepath.Join(dir, fmt.Sprintf("file%02d", i)), []byte("x"), 0644); err != nil {
			t.Fatal(err)
		}
	}
	src, err := hackpados.NewFS().Sub(strings.TrimPrefix(filepath.ToSlash(dir), "/"))
	if err != nil {
		t.Fatal(err)
	}
	store, err := mem.NewFS()
	if err != nil {
		t.Fatal(err)
	}
	cfs, err := cache.NewReadOnlyFS(src, store, cache.ReadOnlyOptions{})
	if err != nil {
		t.Fatal(err)
	}
	page := func(fs hackpadfs.FS) []string {
		d, err := fs.Open(".")
		if err != nil {
			t.Fatal(err)
		}
		defer func() { _ = d.Close() }()
		es, err := hackpadfs.ReadDirFile(d, 5)
		if err != nil {
			t.Fatal(err)
		}
		var names []string
		for _, e := range es {
			names = append(names, e.Name())
		}
		return names
	}
	want1, want2 := page(src), page(src)
	if fmt.Sprint(want1) != fmt.Sprint(want2) {
		t.Skip("source paging is not deterministic")
	}
	got := page(cfs)
	if fmt.Sprint(got) != fmt.Sprint(want1) {
		t.Errorf("first ReadDir(5) on Open(\".\"): cache = %v, source = %v", got, want1)
	}
}
