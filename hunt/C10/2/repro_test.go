package cache_test

import (
	"io"
	"testing"

	"github.com/hack-pad/hackpadfs"
	"github.com/hack-pad/hackpadfs/cache"
	"github.com/hack-pad/hackpadfs/mem"
)

// Open(dir), ReadDir(-1), Seek(0, SeekStart), ReadDir(-1): on the source the Seek rewinds the
// listing and the second ReadDir returns all names again; the cache's directory handle has no Seek
// and the second ReadDir returns nothing.
func TestHuntC10DirHandleSeekRewind(t *testing.T) {
	src, err := mem.NewFS()
	if err != nil {
		t.Fatal(err)
	}
	if err := src.Mkdir("d", 0755); err != nil {
		t.Fatal(err)
	}
	for _, n := range []string{"d/a", "d/b", "d/c"} {
		f, err := src.OpenFile(n, hackpadfs.FlagWriteOnly|hackpadfs.FlagCreate, 0644)
		if err != nil {
			t.Fatal(err)
		}
		_ = f.Close()
	}
	store, err := mem.NewFS()
	if err != nil {
		t.Fatal(err)
	}
	cfs, err := cache.NewReadOnlyFS(src, store, cache.ReadOnlyOptions{})
	if err != nil {
		t.Fatal(err)
	}

	type result struct {
		first, second int
		seekPos       int64
		seekOK        bool
	}
	run := func(fs hackpadfs.FS) result {
		d, err := fs.Open("d")
		if err != nil {
			t.Fatal(err)
		}
		defer func() { _ = d.Close() }()
		var r result
		es, err := hackpadfs.ReadDirFile(d, -1)
		if err != nil {
			t.Fatal(err)
		}
		r.first = len(es)
		pos, err := hackpadfs.SeekFile(d, 0, io.SeekStart)
		r.seekPos, r.seekOK = pos, err == nil
		es, err = hackpadfs.ReadDirFile(d, -1)
		if err != nil {
			t.Fatal(err)
		}
		r.second = len(es)
		return r
	}
	want := run(src)
	got := run(cfs)
	if want.first != 3 || want.second != 3 || !want.seekOK {
		t.Fatalf("unexpected source behaviour: %+v", want)
	}
	if got != want {
		t.Errorf("Open, ReadDir(-1), Seek(0,SeekStart), ReadDir(-1): cache = %+v, source = %+v", got, want)
	}
}
