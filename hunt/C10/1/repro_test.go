package cache_test

import (
	"io"
	"testing"

	"github.com/hack-pad/hackpadfs"
	"github.com/hack-pad/hackpadfs/cache"
	"github.com/hack-pad/hackpadfs/mem"
)

// A retained file whose source mode carries setuid/setgid/sticky bits: the handle served from the
// cache on the second Open reports a different mode than the same call on the source.
func TestHuntC10CachedHandleModeBits(t *testing.T) {
	for _, mode := range []hackpadfs.FileMode{
		0755 | hackpadfs.ModeSetuid,
		0750 | hackpadfs.ModeSetgid,
		0644 | hackpadfs.ModeSticky,
	} {
		src, err := mem.NewFS()
		if err != nil {
			t.Fatal(err)
		}
		f, err := src.OpenFile("prog", hackpadfs.FlagWriteOnly|hackpadfs.FlagCreate, 0644)
		if err != nil {
			t.Fatal(err)
		}
		if _, err := hackpadfs.WriteFile(f, []byte("hello")); err != nil {
			t.Fatal(err)
		}
		_ = f.Close()
		if err := src.Chmod("prog", mode); err != nil {
			t.Fatal(err)
		}

		store, err := mem.NewFS()
		if err != nil {
			t.Fatal(err)
		}
		cfs, err := cache.NewReadOnlyFS(src, store, cache.ReadOnlyOptions{})
		if err != nil {
			t.Fatal(err)
		}

		for round := 1; round <= 2; round++ {
			sf, err := src.Open("prog")
			if err != nil {
				t.Fatal(err)
			}
			cf, err := cfs.Open("prog")
			if err != nil {
				t.Fatal(err)
			}
			sInfo, err := sf.Stat()
			if err != nil {
				t.Fatal(err)
			}
			cInfo, err := cf.Stat()
			if err != nil {
				t.Fatal(err)
			}
			if sInfo.Mode() != cInfo.Mode() {
				t.Errorf("open #%d: file.Stat().Mode() on cache = %v, on source = %v", round, cInfo.Mode(), sInfo.Mode())
			}
			_, _ = io.ReadAll(cf)
			_ = sf.Close()
			_ = cf.Close()
		}
	}
}
