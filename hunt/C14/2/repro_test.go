package keyvalue_test

import (
	"context"
	"errors"
	"fmt"
	"path"
	"sort"
	"testing"
	"time"

	"github.com/hack-pad/hackpadfs"
	"github.com/hack-pad/hackpadfs/keyvalue"
	"github.com/hack-pad/hackpadfs/keyvalue/blob"
)

var _ = fmt.Sprint
var _ = errors.New

// hunt2Store is a small map-backed keyvalue.Store with fault injection:
// the store call (Get / Set / Data() / ReadDirNames()) selected by 'fail' returns 'failErr' once.
type hunt2Rec struct {
	data    []byte
	mode    hackpadfs.FileMode
	modTime time.Time
}

type hunt2Store struct {
	recs    map[string]hunt2Rec
	fail    func(call string) bool // call is e.g. "Get:a/b", "Set:a", "Data:f", "ReadDirNames:d"
	failErr error
	fired   []string
}

func newHunt2Store() *hunt2Store {
	return &hunt2Store{
		recs:    map[string]hunt2Rec{".": {mode: hackpadfs.ModeDir | 0755, modTime: time.Unix(1, 0)}},
		failErr: errors.New("injected store failure"),
	}
}

func (s *hunt2Store) tick(call string) error {
	if s.fail != nil && s.fail(call) {
		s.fail = nil // single fault
		s.fired = append(s.fired, call)
		return s.failErr
	}
	return nil
}

type hunt2Record struct {
	s    *hunt2Store
	path string
	rec  hunt2Rec
}

func (r *hunt2Record) Data() (blob.Blob, error) {
	if r.rec.mode.IsDir() {
		return nil, hackpadfs.ErrIsDir
	}
	if err := r.s.tick("Data:" + r.path); err != nil {
		return nil, err
	}
	return blob.NewBytes(append([]byte(nil), r.rec.data...)), nil // a copy, as FileRecord.Data documents
}

func (r *hunt2Record) ReadDirNames() ([]string, error) {
	if !r.rec.mode.IsDir() {
		return nil, hackpadfs.ErrNotDir
	}
	if err := r.s.tick("ReadDirNames:" + r.path); err != nil {
		return nil, err
	}
	var names []string
	for p := range r.s.recs {
		if p != "." && path.Dir(p) == r.path {
			names = append(names, path.Base(p))
		}
	}
	sort.Strings(names)
	return names, nil
}

func (r *hunt2Record) Size() int64              { return int64(len(r.rec.data)) }
func (r *hunt2Record) Mode() hackpadfs.FileMode { return r.rec.mode }
func (r *hunt2Record) ModTime() time.Time       { return r.rec.modTime }
func (r *hunt2Record) Sys() interface{}         { return nil }

func (s *hunt2Store) Get(ctx context.Context, p string) (keyvalue.FileRecord, error) {
	if err := s.tick("Get:" + p); err != nil {
		return nil, err
	}
	rec, ok := s.recs[p]
	if !ok {
		return nil, hackpadfs.ErrNotExist
	}
	return &hunt2Record{s: s, path: p, rec: rec}, nil
}

func (s *hunt2Store) Set(ctx context.Context, p string, src keyvalue.FileRecord) error {
	if err := s.tick("Set:" + p); err != nil {
		return err
	}
	if src == nil {
		delete(s.recs, p)
		return nil
	}
	rec := hunt2Rec{mode: src.Mode(), modTime: src.ModTime()}
	if !rec.mode.IsDir() {
		b, err := src.Data()
		if err != nil {
			return err
		}
		rec.data = append([]byte(nil), b.Bytes()...)
	}
	s.recs[p] = rec
	return nil
}

func hunt2Safe(f func() error) (err error, panicked interface{}) {
	defer func() {
		if r := recover(); r != nil {
			panicked = r
		}
	}()
	return f(), nil
}

func TestHuntTruncateRetryReportsSuccessStoreNeverAccepted(t *testing.T) {
	st := newHunt2Store() // a plain Store: serial fallback transaction
	st.recs["f"] = hunt2Rec{data: []byte("hello"), mode: 0644, modTime: time.Unix(1, 0)}
	fs, err := keyvalue.NewFS(st)
	if err != nil {
		t.Fatal(err)
	}
	f, err := fs.OpenFile("f", hackpadfs.FlagReadWrite, 0)
	if err != nil {
		t.Fatal(err)
	}
	st.fail = func(call string) bool { return call == "Set:f" }
	if err := hackpadfs.TruncateFile(f, 2); err == nil {
		t.Fatalf("Truncate returned nil although %v failed", st.fired)
	}
	if got := string(st.recs["f"].data); got != "hello" {
		t.Fatalf("store changed although Set was rejected: %q", got)
	}
	// The store is healthy again. The caller retries the very same truncate on the same handle.
	err = hackpadfs.TruncateFile(f, 2)
	got := string(st.recs["f"].data)
	if err == nil && got != "he" {
		b, _ := hackpadfs.ReadFile(fs, "f")
		t.Fatalf("Truncate(2) reported success, but the store never accepted it: store holds %q, fresh ReadFile gives %q", got, b)
	}
}
