package keyvalue_test

import (
	"context"
	"errors"
	"fmt"
	"path"
	"sort"
	"testing"
	"time"

	"github.com/hack-pad/hackpadfs"
	"github.com/hack-pad/hackpadfs/keyvalue"
	"github.com/hack-pad/hackpadfs/keyvalue/blob"
)

var _ = fmt.Sprint
var _ = errors.New

// hunt7Store is a small map-backed keyvalue.Store with fault injection:
// the store call (Get / Set / Data() / ReadDirNames()) selected by 'fail' returns 'failErr' once.
type hunt7Rec struct {
	data    []byte
	mode    hackpadfs.FileMode
	modTime time.Time
}

type hunt7Store struct {
	recs    map[string]hunt7Rec
	fail    func(call string) bool // call is e.g. "Get:a/b", "Set:a", "Data:f", "ReadDirNames:d"
	failErr error
	fired   []string
}

func newHunt7Store() *hunt7Store {
	return &hunt7Store{
		recs:    map[string]hunt7Rec{".": {mode: hackpadfs.ModeDir | 0755, modTime: time.Unix(1, 0)}},
		failErr: errors.New("injected store failure"),
	}
}

func (s *hunt7Store) tick(call string) error {
	if s.fail != nil && s.fail(call) {
		s.fail = nil // single fault
		s.fired = append(s.fired, call)
		return s.failErr
	}
	return nil
}

type hunt7Record struct {
	s    *hunt7Store
	path string
	rec  hunt7Rec
}

func (r *hunt7Record) Data() (blob.Blob, error) {
	if r.rec.mode.IsDir() {
		return nil, hackpadfs.ErrIsDir
	}
	if err := r.s.tick("Data:" + r.path); err != nil {
		return nil, err
	}
	return blob.NewBytes(append([]byte(nil), r.rec.data...)), nil // a copy, as FileRecord.Data documents
}

func (r *hunt7Record) ReadDirNames() ([]string, error) {
	if !r.rec.mode.IsDir() {
		return nil, hackpadfs.ErrNotDir
	}
	if err := r.s.tick("ReadDirNames:" + r.path); err != nil {
		return nil, err
	}
	var names []string
	for p := range r.s.recs {
		if p != "." && path.Dir(p) == r.path {
			names = append(names, path.Base(p))
		}
	}
	sort.Strings(names)
	return names, nil
}

func (r *hunt7Record) Size() int64              { return int64(len(r.rec.data)) }
func (r *hunt7Record) Mode() hackpadfs.FileMode { return r.rec.mode }
func (r *hunt7Record) ModTime() time.Time       { return r.rec.modTime }
func (r *hunt7Record) Sys() interface{}         { return nil }

func (s *hunt7Store) Get(ctx context.Context, p string) (keyvalue.FileRecord, error) {
	if err := s.tick("Get:" + p); err != nil {
		return nil, err
	}
	rec, ok := s.recs[p]
	if !ok {
		return nil, hackpadfs.ErrNotExist
	}
	return &hunt7Record{s: s, path: p, rec: rec}, nil
}

func (s *hunt7Store) Set(ctx context.Context, p string, src keyvalue.FileRecord) error {
	if err := s.tick("Set:" + p); err != nil {
		return err
	}
	if src == nil {
		delete(s.recs, p)
		return nil
	}
	rec := hunt7Rec{mode: src.Mode(), modTime: src.ModTime()}
	if !rec.mode.IsDir() {
		b, err := src.Data()
		if err != nil {
			return err
		}
		rec.data = append([]byte(nil), b.Bytes()...)
	}
	s.recs[p] = rec
	return nil
}

func hunt7Safe(f func() error) (err error, panicked interface{}) {
	defer func() {
		if r := recover(); r != nil {
			panicked = r
		}
	}()
	return f(), nil
}

func TestHuntRemoveAllDropsFailedListingThatLooksLikeNotExist(t *testing.T) {
	st := newHunt7Store() // plain Store
	st.recs["d"] = hunt7Rec{mode: hackpadfs.ModeDir | 0755, modTime: time.Unix(1, 0)}
	fs, err := keyvalue.NewFS(st)
	if err != nil {
		t.Fatal(err)
	}
	// Listing fails the 2nd time with a "no such key" class error, as examples/s3 wrapS3Err produces.
	st.failErr = fmt.Errorf("list objects: %w", hackpadfs.ErrNotExist)
	n := 0
	st.fail = func(call string) bool {
		if call == "ReadDirNames:d" {
			n++
			return n == 2
		}
		return false
	}
	err = hackpadfs.RemoveAll(fs, "d")
	if len(st.fired) == 0 {
		t.Skip("fault did not fire")
	}
	_, still := st.recs["d"]
	if err == nil && still {
		t.Fatalf("RemoveAll returned nil although store call %v failed; the store still holds \"d\"", st.fired)
	}
}
