package keyvalue_test

import (
	"context"
	"errors"
	"fmt"
	"path"
	"sort"
	"testing"
	"time"

	"github.com/hack-pad/hackpadfs"
	"github.com/hack-pad/hackpadfs/keyvalue"
	"github.com/hack-pad/hackpadfs/keyvalue/blob"
)

var _ = fmt.Sprint
var _ = errors.New

// hunt3Store is a small map-backed keyvalue.Store with fault injection:
// the store call (Get / Set / Data() / ReadDirNames()) selected by 'fail' returns 'failErr' once.
type hunt3Rec struct {
	data    []byte
	mode    hackpadfs.FileMode
	modTime time.Time
}

type hunt3Store struct {
	recs    map[string]hunt3Rec
	fail    func(call string) bool // call is e.g. "Get:a/b", "Set:a", "Data:f", "ReadDirNames:d"
	failErr error
	fired   []string
}

func newHunt3Store() *hunt3Store {
	return &hunt3Store{
		recs:    map[string]hunt3Rec{".": {mode: hackpadfs.ModeDir | 0755, modTime: time.Unix(1, 0)}},
		failErr: errors.New("injected store failure"),
	}
}

func (s *hunt3Store) tick(call string) error {
	if s.fail != nil && s.fail(call) {
		s.fail = nil // single fault
		s.fired = append(s.fired, call)
		return s.failErr
	}
	return nil
}

type hunt3Record struct {
	s    *hunt3Store
	path string
	rec  hunt3Rec
}

func (r *hunt3Record) Data() (blob.Blob, error) {
	if r.rec.mode.IsDir() {
		return nil, hackpadfs.ErrIsDir
	}
	if err := r.s.tick("Data:" + r.path); err != nil {
		return nil, err
	}
	return blob.NewBytes(append([]byte(nil), r.rec.data...)), nil // a copy, as FileRecord.Data documents
}

func (r *hunt3Record) ReadDirNames() ([]string, error) {
	if !r.rec.mode.IsDir() {
		return nil, hackpadfs.ErrNotDir
	}
	if err := r.s.tick("ReadDirNames:" + r.path); err != nil {
		return nil, err
	}
	var names []string
	for p := range r.s.recs {
		if p != "." && path.Dir(p) == r.path {
			names = append(names, path.Base(p))
		}
	}
	sort.Strings(names)
	return names, nil
}

func (r *hunt3Record) Size() int64              { return int64(len(r.rec.data)) }
func (r *hunt3Record) Mode() hackpadfs.FileMode { return r.rec.mode }
func (r *hunt3Record) ModTime() time.Time       { return r.rec.modTime }
func (r *hunt3Record) Sys() interface{}         { return nil }

func (s *hunt3Store) Get(ctx context.Context, p string) (keyvalue.FileRecord, error) {
	if err := s.tick("Get:" + p); err != nil {
		return nil, err
	}
	rec, ok := s.recs[p]
	if !ok {
		return nil, hackpadfs.ErrNotExist
	}
	return &hunt3Record{s: s, path: p, rec: rec}, nil
}

func (s *hunt3Store) Set(ctx context.Context, p string, src keyvalue.FileRecord) error {
	if err := s.tick("Set:" + p); err != nil {
		return err
	}
	if src == nil {
		delete(s.recs, p)
		return nil
	}
	rec := hunt3Rec{mode: src.Mode(), modTime: src.ModTime()}
	if !rec.mode.IsDir() {
		b, err := src.Data()
		if err != nil {
			return err
		}
		rec.data = append([]byte(nil), b.Bytes()...)
	}
	s.recs[p] = rec
	return nil
}

// hunt3TxnStore makes hunt3Store a keyvalue.TransactionStore. Operations run against the store immediately;
// every operation's outcome is in the Commit results. With commitErr set, Commit additionally returns the
// first operation failure (other than "not found") as its own error, which is how the module's own
// indexeddb TransactionStore reports a failed request (Commit returns results AND the await error).
type hunt3TxnStore struct {
	*hunt3Store
	commitErr bool
	beginFail func() bool
}

type hunt3Txn struct {
	s       *hunt3TxnStore
	results []keyvalue.OpResult
}

func (s *hunt3TxnStore) Transaction(o keyvalue.TransactionOptions) (keyvalue.Transaction, error) {
	if s.beginFail != nil && s.beginFail() {
		s.beginFail = nil
		return nil, errors.New("injected: cannot begin transaction")
	}
	return &hunt3Txn{s: s}, nil
}

func (t *hunt3Txn) Get(p string) keyvalue.OpID { return t.GetHandler(p, nil) }
func (t *hunt3Txn) GetHandler(p string, h keyvalue.OpHandler) keyvalue.OpID {
	op := keyvalue.OpID(len(t.results))
	rec, err := t.s.hunt3Store.Get(context.Background(), p)
	res := keyvalue.OpResult{Op: op, Record: rec, Err: err}
	if h != nil {
		if herr := h.Handle(t, res); herr != nil && res.Err == nil {
			res.Err = herr
		}
	}
	t.results = append(t.results, res)
	return op
}
func (t *hunt3Txn) Set(p string, src keyvalue.FileRecord, c blob.Blob) keyvalue.OpID {
	return t.SetHandler(p, src, c, nil)
}
func (t *hunt3Txn) SetHandler(p string, src keyvalue.FileRecord, c blob.Blob, h keyvalue.OpHandler) keyvalue.OpID {
	op := keyvalue.OpID(len(t.results))
	err := t.s.hunt3Store.Set(context.Background(), p, src)
	res := keyvalue.OpResult{Op: op, Err: err}
	if h != nil {
		if herr := h.Handle(t, res); herr != nil && res.Err == nil {
			res.Err = herr
		}
	}
	t.results = append(t.results, res)
	return op
}
func (t *hunt3Txn) Commit(ctx context.Context) ([]keyvalue.OpResult, error) {
	if t.s.commitErr {
		for _, r := range t.results {
			if r.Err != nil && !errors.Is(r.Err, hackpadfs.ErrNotExist) {
				return t.results, r.Err
			}
		}
	}
	return t.results, nil
}
func (t *hunt3Txn) Abort() error { return nil }

func hunt3Safe(f func() error) (err error, panicked interface{}) {
	defer func() {
		if r := recover(); r != nil {
			panicked = r
		}
	}()
	return f(), nil
}

func TestHuntRenamePanicsWhenTransactionCannotBegin(t *testing.T) {
	st := newHunt3Store()
	st.recs["f"] = hunt3Rec{data: []byte("hello"), mode: 0644, modTime: time.Unix(1, 0)}
	store := &hunt3TxnStore{hunt3Store: st}
	fs, err := keyvalue.NewFS(store)
	if err != nil {
		t.Fatal(err)
	}
	n := 0
	store.beginFail = func() bool { n++; return n == 4 } // the read-write transaction of the file rename
	err, p := hunt3Safe(func() error { return fs.Rename("f", "g") })
	if p != nil {
		t.Fatalf("Rename panicked when the store failed to begin a transaction: %v", p)
	}
	if err == nil {
		t.Fatal("Rename returned nil although the store failed")
	}
}
