package mount_test

import (
	goos "os"
	"path/filepath"
	"strings"
	"testing"

	"github.com/hack-pad/hackpadfs"
	"github.com/hack-pad/hackpadfs/mem"
	"github.com/hack-pad/hackpadfs/mount"
	hackpados "github.com/hack-pad/hackpadfs/os"
)

// A cross-mount rename onto a name that is a symbolic link must replace that name (as os.Rename does),
// not write through the link into a third file.
func TestHuntC06CrossMountRenameWritesThroughSymlinkDestination(t *testing.T) {
	dir := t.TempDir()
	osFS, err := hackpados.NewFS().Sub(strings.TrimPrefix(filepath.ToSlash(dir), "/"))
	if err != nil {
		t.Fatal(err)
	}
	if err := goos.WriteFile(filepath.Join(dir, "other"), []byte("precious"), 0644); err != nil {
		t.Fatal(err)
	}
	if err := goos.Symlink("other", filepath.Join(dir, "dst")); err != nil {
		t.Fatal(err)
	}
	root, err := mem.NewFS()
	if err != nil {
		t.Fatal(err)
	}
	if err := root.Mkdir("a", 0777); err != nil {
		t.Fatal(err)
	}
	mfs, _ := mount.NewFS(root)
	if err := mfs.AddMount("a", osFS); err != nil {
		t.Fatal(err)
	}
	f, err := hackpadfs.OpenFile(mfs, "src", hackpadfs.FlagWriteOnly|hackpadfs.FlagCreate, 0644)
	if err != nil {
		t.Fatal(err)
	}
	if _, err := hackpadfs.WriteFile(f, []byte("new")); err != nil {
		t.Fatal(err)
	}
	if err := f.Close(); err != nil {
		t.Fatal(err)
	}

	if err := mfs.Rename("src", "a/dst"); err != nil {
		t.Fatal(err)
	}

	if b, err := goos.ReadFile(filepath.Join(dir, "other")); err != nil || string(b) != "precious" {
		t.Errorf("a third file 'other' (not named in the Rename) now reads %q, %v; want it untouched (\"precious\")", b, err)
	}
	if info, err := goos.Lstat(filepath.Join(dir, "dst")); err != nil || !info.Mode().IsRegular() {
		t.Errorf("the destination name is not the renamed regular file: mode %v, err %v", info.Mode(), err)
	}
}
