package mount_test

import (
	"testing"

	"github.com/hack-pad/hackpadfs"
	"github.com/hack-pad/hackpadfs/mem"
	"github.com/hack-pad/hackpadfs/mount"
)

// The same file system mounted at two mount points: a cross-mount Rename that keeps the base name
// truncates the source (it is also the destination) and then removes it: the file is gone everywhere.
func TestHuntC06AliasedMountsRenameDestroysFile(t *testing.T) {
	root, err := mem.NewFS()
	if err != nil {
		t.Fatal(err)
	}
	shared, err := mem.NewFS()
	if err != nil {
		t.Fatal(err)
	}
	if err := root.Mkdir("a", 0777); err != nil {
		t.Fatal(err)
	}
	if err := root.Mkdir("b", 0777); err != nil {
		t.Fatal(err)
	}
	mfs, _ := mount.NewFS(root)
	if err := mfs.AddMount("a", shared); err != nil {
		t.Fatal(err)
	}
	if err := mfs.AddMount("b", shared); err != nil {
		t.Fatal(err)
	}
	f, err := hackpadfs.OpenFile(mfs, "a/f", hackpadfs.FlagWriteOnly|hackpadfs.FlagCreate, 0644)
	if err != nil {
		t.Fatal(err)
	}
	if _, err := hackpadfs.WriteFile(f, []byte("hello")); err != nil {
		t.Fatal(err)
	}
	if err := f.Close(); err != nil {
		t.Fatal(err)
	}

	renameErr := mfs.Rename("a/f", "b/f")

	// Either the rename succeeded and b/f holds "hello", or it failed and a/f still holds "hello".
	name := "b/f"
	if renameErr != nil {
		name = "a/f"
	}
	b, err := hackpadfs.ReadFile(mfs, name)
	if err != nil || string(b) != "hello" {
		t.Errorf("Rename(a/f, b/f) = %v; afterwards ReadFile(%s) = %q, %v; want \"hello\" (the bytes were lost)", renameErr, name, b, err)
	}
}
