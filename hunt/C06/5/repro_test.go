package mount_test

import (
	"testing"

	"github.com/hack-pad/hackpadfs"
	"github.com/hack-pad/hackpadfs/mem"
	"github.com/hack-pad/hackpadfs/mount"
)

// Sub over mount over mem: paths below a mount point must still be routed to the mounted file system.
func TestHuntC06SubOfMountFSIgnoresMounts(t *testing.T) {
	root, err := mem.NewFS()
	if err != nil {
		t.Fatal(err)
	}
	inner, err := mem.NewFS()
	if err != nil {
		t.Fatal(err)
	}
	if err := root.MkdirAll("r/m", 0777); err != nil {
		t.Fatal(err)
	}
	mfs, _ := mount.NewFS(root)
	if err := mfs.AddMount("r/m", inner); err != nil {
		t.Fatal(err)
	}
	if err := hackpadfs.Mkdir(mfs, "r/m/d", 0777); err != nil { // lands in 'inner'
		t.Fatal(err)
	}
	if _, err := hackpadfs.Stat(inner, "d"); err != nil {
		t.Fatal(err)
	}

	for _, tc := range []struct{ dir, name string }{
		{"r", "m/d"},
		{".", "r/m/d"},
	} {
		sub, err := hackpadfs.Sub(mfs, tc.dir)
		if err != nil {
			t.Fatal(err)
		}
		if _, err := hackpadfs.Stat(sub, tc.name); err != nil {
			t.Errorf("Sub(mfs, %q): Stat(%q) = %v, but Stat(mfs, \"r/m/d\") succeeds", tc.dir, tc.name, err)
		}
		// and writes through the sub view land in the wrong file system
		if err := hackpadfs.Mkdir(sub, tc.name+"2", 0777); err != nil {
			t.Fatal(err)
		}
		if _, err := hackpadfs.Stat(root, "r/m/d2"); err == nil {
			t.Errorf("Sub(mfs, %q): Mkdir(%q) took effect in the root file system below the mount point r/m instead of in the mounted file system", tc.dir, tc.name+"2")
		}
		_ = hackpadfs.Remove(root, "r/m/d2")
		_ = hackpadfs.Remove(inner, "d2")
	}
}
