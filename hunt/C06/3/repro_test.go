package mount_test

import (
	"testing"
	"testing/fstest"

	"github.com/hack-pad/hackpadfs"
	"github.com/hack-pad/hackpadfs/mem"
	"github.com/hack-pad/hackpadfs/mount"
)

// The source mount is read-only (no Remove): the rename fails, but only after the destination was written.
func TestHuntC06FailedCrossMountRenameChangesDestination(t *testing.T) {
	root, err := mem.NewFS()
	if err != nil {
		t.Fatal(err)
	}
	if err := root.Mkdir("ro", 0777); err != nil {
		t.Fatal(err)
	}
	readOnly := fstest.MapFS{"f": &fstest.MapFile{Data: []byte("new"), Mode: 0644}}
	mfs, _ := mount.NewFS(root)
	if err := mfs.AddMount("ro", readOnly); err != nil {
		t.Fatal(err)
	}
	// an existing destination with other contents
	f, err := hackpadfs.OpenFile(mfs, "dst", hackpadfs.FlagWriteOnly|hackpadfs.FlagCreate, 0644)
	if err != nil {
		t.Fatal(err)
	}
	if _, err := hackpadfs.WriteFile(f, []byte("old")); err != nil {
		t.Fatal(err)
	}
	if err := f.Close(); err != nil {
		t.Fatal(err)
	}

	renameErr := mfs.Rename("ro/f", "dst")
	if renameErr == nil {
		t.Fatal("expected the rename to fail: the source mount cannot remove files")
	}
	t.Logf("Rename(ro/f, dst) = %v", renameErr)

	if _, err := hackpadfs.Stat(mfs, "ro/f"); err != nil {
		t.Errorf("source: %v", err)
	}
	b, err := hackpadfs.ReadFile(mfs, "dst")
	if err != nil || string(b) != "old" {
		t.Errorf("after the failed Rename the destination holds %q, %v; want it unchanged (\"old\")", b, err)
	}

	// same with no pre-existing destination: the failed call must not leave a copy behind
	renameErr = mfs.Rename("ro/f", "dst2")
	if renameErr == nil {
		t.Fatal("expected failure")
	}
	if _, err := hackpadfs.Stat(mfs, "dst2"); err == nil {
		t.Errorf("after the failed Rename(ro/f, dst2) = %v, dst2 exists (and ro/f still exists too)", renameErr)
	}
}
