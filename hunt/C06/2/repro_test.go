package mount_test

import (
	"testing"

	"github.com/hack-pad/hackpadfs"
	"github.com/hack-pad/hackpadfs/mem"
	"github.com/hack-pad/hackpadfs/mount"
)

func huntC06ModeWrite(t *testing.T, fs hackpadfs.FS, name, data string, perm hackpadfs.FileMode) {
	t.Helper()
	f, err := hackpadfs.OpenFile(fs, name, hackpadfs.FlagWriteOnly|hackpadfs.FlagCreate|hackpadfs.FlagTruncate, perm)
	if err != nil {
		t.Fatal(err)
	}
	if _, err := hackpadfs.WriteFile(f, []byte(data)); err != nil {
		t.Fatal(err)
	}
	if err := f.Close(); err != nil {
		t.Fatal(err)
	}
}

// A regular file renamed across two mounts must arrive with the same mode.
func TestHuntC06CrossMountRenameMode(t *testing.T) {
	root, err := mem.NewFS()
	if err != nil {
		t.Fatal(err)
	}
	inner, err := mem.NewFS()
	if err != nil {
		t.Fatal(err)
	}
	if err := root.Mkdir("a", 0777); err != nil {
		t.Fatal(err)
	}
	mfs, _ := mount.NewFS(root)
	if err := mfs.AddMount("a", inner); err != nil {
		t.Fatal(err)
	}

	t.Run("existing destination keeps its old mode", func(t *testing.T) {
		huntC06ModeWrite(t, mfs, "src", "secret", 0600)
		huntC06ModeWrite(t, mfs, "a/dst", "old", 0644)
		if err := mfs.Rename("src", "a/dst"); err != nil {
			t.Fatal(err)
		}
		info, err := hackpadfs.Stat(mfs, "a/dst")
		if err != nil {
			t.Fatal(err)
		}
		if info.Mode() != 0600 {
			t.Errorf("mode after cross-mount rename = %v, want the source's mode -rw-------", info.Mode())
		}
	})

	t.Run("setuid bit is dropped", func(t *testing.T) {
		huntC06ModeWrite(t, mfs, "src2", "x", 0755)
		if err := hackpadfs.Chmod(mfs, "src2", 0755|hackpadfs.ModeSetuid); err != nil {
			t.Fatal(err)
		}
		before, err := hackpadfs.Stat(mfs, "src2")
		if err != nil {
			t.Fatal(err)
		}
		if err := mfs.Rename("src2", "a/dst2"); err != nil {
			t.Fatal(err)
		}
		after, err := hackpadfs.Stat(mfs, "a/dst2")
		if err != nil {
			t.Fatal(err)
		}
		if after.Mode() != before.Mode() {
			t.Errorf("mode after cross-mount rename = %v, want %v", after.Mode(), before.Mode())
		}
	})
}
