package mount_test

import (
	goos "os"
	"path/filepath"
	"strings"
	"testing"

	"github.com/hack-pad/hackpadfs"
	"github.com/hack-pad/hackpadfs/mem"
	"github.com/hack-pad/hackpadfs/mount"
	hackpados "github.com/hack-pad/hackpadfs/os"
)

// Symlink through the mount FS must behave as Symlink applied directly to the selected file system.
func TestHuntC06SymlinkNotRouted(t *testing.T) {
	dir := t.TempDir()
	osFS, err := hackpados.NewFS().Sub(strings.TrimPrefix(filepath.ToSlash(dir), "/"))
	if err != nil {
		t.Fatal(err)
	}
	if err := goos.WriteFile(filepath.Join(dir, "f"), []byte("x"), 0644); err != nil {
		t.Fatal(err)
	}
	root, err := mem.NewFS()
	if err != nil {
		t.Fatal(err)
	}
	if err := root.Mkdir("a", 0777); err != nil {
		t.Fatal(err)
	}
	mfs, _ := mount.NewFS(root)
	if err := mfs.AddMount("a", osFS); err != nil {
		t.Fatal(err)
	}

	// directly on the selected file system, addressed by the remainders of the paths
	if err := hackpadfs.Symlink(osFS, "f", "direct"); err != nil {
		t.Fatalf("direct: %v", err)
	}
	// the same operation through the mount file system
	if err := hackpadfs.Symlink(mfs, "a/f", "a/viamount"); err != nil {
		t.Errorf("Symlink(mfs, a/f, a/viamount) = %v; the same call on the file system mounted at 'a' succeeds", err)
	}
	if _, err := goos.Lstat(filepath.Join(dir, "viamount")); err != nil {
		t.Errorf("no link was created in the mounted file system: %v", err)
	}

	// also with no mounts at all: everything is routed to the root file system, which supports Symlink
	plain, _ := mount.NewFS(osFS)
	if err := hackpadfs.Symlink(plain, "f", "viaplain"); err != nil {
		t.Errorf("Symlink(mount.FS over os.FS with no mounts) = %v", err)
	}
}
