package mount_test

import (
	goos "os"
	"path/filepath"
	"strings"
	"testing"

	"github.com/hack-pad/hackpadfs"
	"github.com/hack-pad/hackpadfs/mem"
	"github.com/hack-pad/hackpadfs/mount"
	hackpados "github.com/hack-pad/hackpadfs/os"
)

// Rename inside one mount must yield what Rename applied directly to that file system yields.
// mount.FS.Rename first Stat()s (follows links) the old name and gives up when that fails.
func TestHuntC06RenameDanglingSymlinkInsideOneMount(t *testing.T) {
	dir := t.TempDir()
	osFS, err := hackpados.NewFS().Sub(strings.TrimPrefix(filepath.ToSlash(dir), "/"))
	if err != nil {
		t.Fatal(err)
	}
	for _, name := range []string{"l1", "l2"} {
		if err := goos.Symlink("does-not-exist", filepath.Join(dir, name)); err != nil {
			t.Fatal(err)
		}
	}
	root, err := mem.NewFS()
	if err != nil {
		t.Fatal(err)
	}
	if err := root.Mkdir("a", 0777); err != nil {
		t.Fatal(err)
	}
	mfs, _ := mount.NewFS(root)
	if err := mfs.AddMount("a", osFS); err != nil {
		t.Fatal(err)
	}

	directErr := hackpadfs.Rename(osFS, "l1", "l1moved") // as os.Rename: moves the link itself
	if directErr != nil {
		t.Fatalf("direct: %v", directErr)
	}
	mountErr := hackpadfs.Rename(mfs, "a/l2", "a/l2moved")
	if mountErr != nil {
		t.Errorf("Rename(mfs, a/l2, a/l2moved) = %v; the same Rename applied directly to the file system mounted at 'a' succeeds", mountErr)
	}
	if _, err := goos.Lstat(filepath.Join(dir, "l2moved")); err != nil {
		t.Errorf("link not moved: %v", err)
	}
}
