package mount_test

import (
	"errors"
	gofs "io/fs"
	"testing"
	"testing/fstest"

	"github.com/hack-pad/hackpadfs"
	"github.com/hack-pad/hackpadfs/mem"
	"github.com/hack-pad/hackpadfs/mount"
	hackpados "github.com/hack-pad/hackpadfs/os"
)

// huntC06BadDiskFS is a file system whose regular files fail to read (a failing disk).
type huntC06BadDiskFS struct{ fstest.MapFS }

type huntC06BadDiskFile struct{ gofs.File }

func (huntC06BadDiskFile) Read([]byte) (int, error) { return 0, errors.New("input/output error") }

func (fs huntC06BadDiskFS) Open(name string) (gofs.File, error) {
	f, err := fs.MapFS.Open(name)
	if err != nil {
		return nil, err
	}
	if info, err := f.Stat(); err == nil && info.Mode().IsRegular() {
		return huntC06BadDiskFile{f}, nil
	}
	return f, nil
}

func huntC06CopyFail(t *testing.T, source hackpadfs.FS, sourceFile string) {
	root, err := mem.NewFS()
	if err != nil {
		t.Fatal(err)
	}
	if err := root.Mkdir("src", 0777); err != nil {
		t.Fatal(err)
	}
	mfs, _ := mount.NewFS(root)
	if err := mfs.AddMount("src", source); err != nil {
		t.Fatal(err)
	}
	f, err := hackpadfs.OpenFile(mfs, "dst", hackpadfs.FlagWriteOnly|hackpadfs.FlagCreate, 0644)
	if err != nil {
		t.Fatal(err)
	}
	if _, err := hackpadfs.WriteFile(f, []byte("precious")); err != nil {
		t.Fatal(err)
	}
	if err := f.Close(); err != nil {
		t.Fatal(err)
	}

	renameErr := mfs.Rename("src/"+sourceFile, "dst")
	if renameErr == nil {
		t.Fatal("expected the rename to fail: the source cannot be read")
	}
	b, err := hackpadfs.ReadFile(mfs, "dst")
	if err != nil || string(b) != "precious" {
		t.Errorf("Rename = %v; afterwards the pre-existing destination reads %q, %v; want it unchanged (\"precious\")", renameErr, b, err)
	}
}

func TestHuntC06CopyFailureDeletesExistingDestination(t *testing.T) {
	t.Run("failing reader", func(t *testing.T) {
		huntC06CopyFail(t, huntC06BadDiskFS{fstest.MapFS{"f": &fstest.MapFile{Data: []byte("new"), Mode: 0644}}}, "f")
	})
	t.Run("os.FS /proc/self/mem", func(t *testing.T) {
		// a regular file (mode -rw-------) of the real os whose read at offset 0 fails with EIO
		procSelf, err := hackpados.NewFS().Sub("proc/self")
		if err != nil {
			t.Skip(err)
		}
		if info, err := hackpadfs.Stat(procSelf, "mem"); err != nil || !info.Mode().IsRegular() {
			t.Skip("no /proc/self/mem")
		}
		huntC06CopyFail(t, procSelf, "mem")
	})
}
