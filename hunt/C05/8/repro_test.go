package mem_test

import (
	"errors"
	"os"
	"path/filepath"
	"testing"

	"github.com/hack-pad/hackpadfs"
	"github.com/hack-pad/hackpadfs/mem"
)

// Removing the non-empty root directory: os (and os.FS) report ENOTEMPTY, mem reports ErrPermission.
func TestHuntRemoveNonEmptyRoot(t *testing.T) {
	fs, err := mem.NewFS()
	if err != nil {
		t.Fatal(err)
	}
	if err := hackpadfs.WriteFullFile(fs, "f", []byte("x"), 0644); err != nil {
		t.Fatal(err)
	}
	dir := t.TempDir()
	if err := os.WriteFile(filepath.Join(dir, "f"), []byte("x"), 0644); err != nil {
		t.Fatal(err)
	}
	osErr := os.Remove(dir)
	if !errors.Is(osErr, hackpadfs.ErrNotEmpty) {
		t.Skipf("reference os does not report ENOTEMPTY: %v", osErr)
	}

	err = fs.Remove(".")
	if err == nil {
		t.Fatal("expected an error")
	}
	if !errors.Is(err, hackpadfs.ErrNotEmpty) {
		t.Errorf("Remove(\".\") on a non-empty root: os reports %v (ErrNotEmpty); library error does not match ErrNotEmpty: %v", osErr, err)
	}
}
