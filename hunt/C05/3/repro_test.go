package mem_test

import (
	"errors"
	"os"
	"path/filepath"
	"testing"

	"github.com/hack-pad/hackpadfs"
	"github.com/hack-pad/hackpadfs/mem"
)

// Renaming a directory onto an existing regular file: os reports ENOTDIR, mem reports ErrExist.
func TestHuntRenameDirOntoFile(t *testing.T) {
	fs, err := mem.NewFS()
	if err != nil {
		t.Fatal(err)
	}
	if err := fs.Mkdir("d", 0755); err != nil {
		t.Fatal(err)
	}
	if err := hackpadfs.WriteFullFile(fs, "f", []byte("x"), 0644); err != nil {
		t.Fatal(err)
	}
	dir := t.TempDir()
	if err := os.Mkdir(filepath.Join(dir, "d"), 0755); err != nil {
		t.Fatal(err)
	}
	if err := os.WriteFile(filepath.Join(dir, "f"), []byte("x"), 0644); err != nil {
		t.Fatal(err)
	}
	osErr := os.Rename(filepath.Join(dir, "d"), filepath.Join(dir, "f"))
	if !errors.Is(osErr, hackpadfs.ErrNotDir) {
		t.Skipf("reference os does not report ENOTDIR here: %v", osErr)
	}

	err = fs.Rename("d", "f")
	if err == nil {
		t.Fatal("expected an error")
	}
	if _, ok := err.(*hackpadfs.LinkError); !ok {
		t.Errorf("want *LinkError, got %T", err)
	}
	if !errors.Is(err, hackpadfs.ErrNotDir) {
		t.Errorf("Rename(dir, existing file): os reports %v; library error does not match ErrNotDir: %v", osErr, err)
	}
}
