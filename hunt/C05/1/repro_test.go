package mem_test

import (
	"errors"
	"os"
	"path/filepath"
	"testing"

	"github.com/hack-pad/hackpadfs"
	"github.com/hack-pad/hackpadfs/mem"
)

// A path that runs through a regular file: os reports ENOTDIR, mem reports ErrNotExist.
func TestHuntPathThroughRegularFile(t *testing.T) {
	fs, err := mem.NewFS()
	if err != nil {
		t.Fatal(err)
	}
	if err := hackpadfs.WriteFullFile(fs, "f", []byte("x"), 0644); err != nil {
		t.Fatal(err)
	}
	dir := t.TempDir()
	if err := os.WriteFile(filepath.Join(dir, "f"), []byte("x"), 0644); err != nil {
		t.Fatal(err)
	}

	_, osErr := os.Stat(filepath.Join(dir, "f", "x"))
	if !errors.Is(osErr, hackpadfs.ErrNotDir) {
		t.Skipf("reference os does not report ENOTDIR here: %v", osErr)
	}

	check := func(op string, err error) {
		t.Helper()
		if err == nil {
			t.Errorf("%s: expected an error", op)
			return
		}
		if !errors.Is(err, hackpadfs.ErrNotDir) {
			t.Errorf("%s: os reports ENOTDIR for a path through a regular file, library error does not match ErrNotDir: %T %v", op, err, err)
		}
	}
	_, err = fs.Open("f/x")
	check("Open(f/x)", err)
	_, err = fs.Stat("f/x")
	check("Stat(f/x)", err)
	_, err = fs.OpenFile("f/x", hackpadfs.FlagWriteOnly, 0)
	check("OpenFile(f/x, O_WRONLY)", err)
	check("Remove(f/x)", fs.Remove("f/x"))
	check("Chmod(f/x)", fs.Chmod("f/x", 0600))
	check("Mkdir(f/x/y)", fs.Mkdir("f/x/y", 0755))
	_, err = fs.OpenFile("f/x/y", hackpadfs.FlagWriteOnly|hackpadfs.FlagCreate, 0644)
	check("OpenFile(f/x/y, O_CREATE)", err)
	check("Rename(f/x, y)", fs.Rename("f/x", "y"))
}
