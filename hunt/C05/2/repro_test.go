package hackpadfs_test

import (
	"testing"
	"time"

	"github.com/hack-pad/hackpadfs"
	"github.com/hack-pad/hackpadfs/mem"
)

// The Chown/Chtimes/Chmod helpers fall back to the handle-level helper, whose
// not-implemented error names only the base name of the file, not the caller's path.
func TestHuntChownFallbackNamesBaseName(t *testing.T) {
	fs, err := mem.NewFS()
	if err != nil {
		t.Fatal(err)
	}
	if err := fs.MkdirAll("d/sub", 0755); err != nil {
		t.Fatal(err)
	}
	if err := hackpadfs.WriteFullFile(fs, "d/sub/g", []byte("x"), 0644); err != nil {
		t.Fatal(err)
	}

	err = hackpadfs.Chown(fs, "d/sub/g", 0, 0)
	if err == nil {
		t.Skip("Chown is supported")
	}
	pathErr, ok := err.(*hackpadfs.PathError)
	if !ok {
		t.Fatalf("Chown: want *PathError, got %T %v", err, err)
	}
	if pathErr.Path != "d/sub/g" {
		t.Errorf("Chown(fs, %q): error names %q, want the caller's path: %v", "d/sub/g", pathErr.Path, err)
	}

	// same through a Sub file system: the inner base name comes back
	sub, err := hackpadfs.Sub(fs, "d")
	if err != nil {
		t.Fatal(err)
	}
	err = hackpadfs.Chown(sub, "sub/g", 0, 0)
	if pathErr, ok := err.(*hackpadfs.PathError); !ok || pathErr.Path != "sub/g" {
		t.Errorf("Chown(sub, %q): error %T %v does not name the caller's path", "sub/g", err, err)
	}

	// a read-only layer without ChtimesFS (here: a Sub of mem is fine too) -- use a minimal wrapper
	err = hackpadfs.Chtimes(onlyOpen{fs}, "d/sub/g", time.Now(), time.Now())
	if pathErr, ok := err.(*hackpadfs.PathError); !ok || pathErr.Path != "d/sub/g" {
		t.Errorf("Chtimes(open-only fs, %q): error %T %v does not name the caller's path", "d/sub/g", err, err)
	}
}

type onlyOpen struct{ fs hackpadfs.FS }

func (o onlyOpen) Open(name string) (hackpadfs.File, error) { return o.fs.Open(name) }
