package mem_test

import (
	"errors"
	"os"
	"path/filepath"
	"testing"

	"github.com/hack-pad/hackpadfs"
	"github.com/hack-pad/hackpadfs/mem"
)

// Renaming a directory into its own subtree: the destination checks run in a different
// order than in the os package, so a different sentinel comes back.
func TestHuntRenameIntoOwnSubtreeCheckOrder(t *testing.T) {
	for _, tc := range []struct {
		newName string
		want    error
		wantStr string
	}{
		{"d/f", hackpadfs.ErrInvalid, "ErrInvalid"},          // existing file inside the moved directory
		{"d/missing/z", hackpadfs.ErrNotExist, "ErrNotExist"}, // missing parent inside the moved directory
		{"d/f/x", hackpadfs.ErrNotDir, "ErrNotDir"},           // below a regular file inside the moved directory
	} {
		fs, err := mem.NewFS()
		if err != nil {
			t.Fatal(err)
		}
		if err := fs.Mkdir("d", 0755); err != nil {
			t.Fatal(err)
		}
		if err := hackpadfs.WriteFullFile(fs, "d/f", []byte("x"), 0644); err != nil {
			t.Fatal(err)
		}
		dir := t.TempDir()
		if err := os.Mkdir(filepath.Join(dir, "d"), 0755); err != nil {
			t.Fatal(err)
		}
		if err := os.WriteFile(filepath.Join(dir, "d", "f"), []byte("x"), 0644); err != nil {
			t.Fatal(err)
		}
		osErr := os.Rename(filepath.Join(dir, "d"), filepath.Join(dir, filepath.FromSlash(tc.newName)))
		if !errors.Is(osErr, tc.want) {
			t.Logf("reference os differs for %q: %v", tc.newName, osErr)
			continue
		}
		err = fs.Rename("d", tc.newName)
		if err == nil {
			t.Errorf("Rename(d, %s): expected an error", tc.newName)
			continue
		}
		if !errors.Is(err, tc.want) {
			t.Errorf("Rename(\"d\", %q): os error matches %s (%v); library error does not: %v", tc.newName, tc.wantStr, osErr, err)
		}
	}
}
