package hackpadfs_test

import (
	"strings"
	"testing"

	"github.com/hack-pad/hackpadfs"
	"github.com/hack-pad/hackpadfs/mem"
)

// A Sub file system whose base directory lies below a regular file: MkdirAll reports the
// offending ancestor of the base directory with its name in the ROOT file system's namespace.
func TestHuntSubErrorOutsideBaseLeaksInnerPath(t *testing.T) {
	root, err := mem.NewFS()
	if err != nil {
		t.Fatal(err)
	}
	if err := hackpadfs.WriteFullFile(root, "secret", []byte("x"), 0644); err != nil {
		t.Fatal(err)
	}
	sub, err := hackpadfs.Sub(root, "secret/base")
	if err != nil {
		t.Fatal(err)
	}
	err = hackpadfs.MkdirAll(sub, "a/b", 0755)
	if err == nil {
		t.Fatal("expected an error")
	}
	pathErr, ok := err.(*hackpadfs.PathError)
	if !ok {
		t.Fatalf("want *PathError, got %T %v", err, err)
	}
	// In the caller's namespace only ".", "a" and "a/b" exist.
	if pathErr.Path != "." && pathErr.Path != "a" && pathErr.Path != "a/b" {
		t.Errorf("MkdirAll(sub, \"a/b\"): error path %q is not in the caller's namespace (it is a path of the file system underneath the Sub): %v", pathErr.Path, err)
	}
	if strings.Contains(pathErr.Path, "secret") {
		t.Errorf("error path leaks the inner file system's name %q", pathErr.Path)
	}
}
