package mount_test

import (
	"errors"
	"testing"

	"github.com/hack-pad/hackpadfs"
	"github.com/hack-pad/hackpadfs/mem"
	"github.com/hack-pad/hackpadfs/mount"
)

// A Rename between two different mounts that fails while creating the destination
// returns the *PathError of the internal OpenFile instead of a *LinkError.
func TestHuntCrossMountRenameErrorType(t *testing.T) {
	root, err := mem.NewFS()
	if err != nil {
		t.Fatal(err)
	}
	if err := root.Mkdir("m", 0755); err != nil {
		t.Fatal(err)
	}
	if err := root.Mkdir("d", 0755); err != nil {
		t.Fatal(err)
	}
	inner, err := mem.NewFS()
	if err != nil {
		t.Fatal(err)
	}
	if err := hackpadfs.WriteFullFile(inner, "f", []byte("x"), 0644); err != nil {
		t.Fatal(err)
	}
	fs, err := mount.NewFS(root)
	if err != nil {
		t.Fatal(err)
	}
	if err := fs.AddMount("m", inner); err != nil {
		t.Fatal(err)
	}

	for _, tc := range []struct {
		newName string
		want    error
	}{
		{"missing/x", hackpadfs.ErrNotExist}, // destination's parent is missing: os.Rename -> *LinkError ENOENT
		{"d", hackpadfs.ErrExist},            // destination is a directory: os.Rename -> *LinkError EEXIST
	} {
		err := fs.Rename("m/f", tc.newName)
		if err == nil {
			t.Errorf("Rename(m/f, %s): expected an error", tc.newName)
			continue
		}
		linkErr, ok := err.(*hackpadfs.LinkError)
		if !ok {
			t.Errorf("Rename(\"m/f\", %q): want *hackpadfs.LinkError, got %T: %v", tc.newName, err, err)
		} else if linkErr.Old != "m/f" || linkErr.New != tc.newName {
			t.Errorf("Rename(\"m/f\", %q): wrong paths in %v", tc.newName, err)
		}
		if !errors.Is(err, tc.want) {
			t.Errorf("Rename(\"m/f\", %q): error does not match %v: %v", tc.newName, tc.want, err)
		}
	}
}
