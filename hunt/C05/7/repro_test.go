package os_test

import (
	"os"
	"path/filepath"
	"strings"
	"testing"

	"github.com/hack-pad/hackpadfs"
	hos "github.com/hack-pad/hackpadfs/os"
)

// An os.FS whose Sub root lies below a regular file: MkdirAll reports an absolute OS path.
func TestHuntOSSubErrorOutsideRootIsAbsoluteOSPath(t *testing.T) {
	dir := t.TempDir()
	if err := os.WriteFile(filepath.Join(dir, "secret"), []byte("x"), 0644); err != nil {
		t.Fatal(err)
	}
	fs, err := hos.NewFS().Sub(strings.TrimPrefix(filepath.ToSlash(dir), "/"))
	if err != nil {
		t.Fatal(err)
	}
	sub, err := hackpadfs.Sub(fs, "secret/base")
	if err != nil {
		t.Fatal(err)
	}
	err = hackpadfs.MkdirAll(sub, "a/b", 0755)
	if err == nil {
		t.Fatal("expected an error")
	}
	pathErr, ok := err.(*hackpadfs.PathError)
	if !ok {
		t.Fatalf("want *PathError, got %T %v", err, err)
	}
	if filepath.IsAbs(pathErr.Path) || !hackpadfs.ValidPath(pathErr.Path) {
		t.Errorf("MkdirAll(sub, \"a/b\"): error path %q is an absolute OS path, not a path in the caller's namespace: %v", pathErr.Path, err)
	}
}
