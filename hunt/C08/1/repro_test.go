//go:build !wasm && !windows

package hackpadfs_test

import (
	"os"
	"path/filepath"
	"strings"
	"testing"

	"github.com/hack-pad/hackpadfs"
	hpos "github.com/hack-pad/hackpadfs/os"
)

// huntNoRemoveAll exposes everything RemoveAll's fallback needs (Open, OpenFile, Mkdir, Remove, Stat, Lstat, ReadDir)
// but hides RemoveAllFS, so hackpadfs.RemoveAll takes the fallback recursion.
type huntNoRemoveAllI interface {
	hackpadfs.FS
	hackpadfs.OpenFileFS
	hackpadfs.MkdirFS
	hackpadfs.RemoveFS
	hackpadfs.StatFS
	hackpadfs.LstatFS
	hackpadfs.ReadDirFS
}
type huntNoRemoveAll struct{ huntNoRemoveAllI }

func huntRemoveAllTree(t *testing.T) (string, *hpos.FS) {
	t.Helper()
	dir, err := filepath.EvalSymlinks(t.TempDir())
	if err != nil {
		t.Fatal(err)
	}
	must := func(err error) {
		t.Helper()
		if err != nil {
			t.Fatal(err)
		}
	}
	must(os.MkdirAll(filepath.Join(dir, "keep/sub"), 0755))
	must(os.WriteFile(filepath.Join(dir, "keep/precious"), []byte("data"), 0644))
	must(os.Mkdir(filepath.Join(dir, "victim"), 0755))
	must(os.Symlink(filepath.Join(dir, "keep"), filepath.Join(dir, "victim/link"))) // symlink to a directory outside "victim"
	must(os.Symlink(filepath.Join(dir, "missing"), filepath.Join(dir, "dangling"))) // dangling symlink
	fs, err := hpos.NewFS().Sub(strings.TrimPrefix(filepath.ToSlash(dir), "/"))
	must(err)
	return dir, fs.(*hpos.FS)
}

// RemoveAll("victim") must only remove the symlink victim/link (like os.RemoveAll and like the full-capability FS),
// never the contents of the directory the link points to.
func TestHuntRemoveAllFallbackFollowsSymlink(t *testing.T) {
	// reference: all interfaces exposed
	dirFull, full := huntRemoveAllTree(t)
	if err := hackpadfs.RemoveAll(full, "victim"); err != nil {
		t.Fatal(err)
	}
	if _, err := os.Stat(filepath.Join(dirFull, "keep/precious")); err != nil {
		t.Fatal("reference run lost the file:", err)
	}

	dirMasked, fs := huntRemoveAllTree(t)
	err := hackpadfs.RemoveAll(huntNoRemoveAll{fs}, "victim")
	t.Log("masked RemoveAll error:", err)
	if _, statErr := os.Stat(filepath.Join(dirMasked, "keep/precious")); statErr != nil {
		t.Errorf("RemoveAll fallback deleted the contents of the symlink's target directory: %v", statErr)
	}
	if _, statErr := os.Stat(filepath.Join(dirMasked, "keep/sub")); statErr != nil {
		t.Errorf("RemoveAll fallback deleted a subdirectory of the symlink's target directory: %v", statErr)
	}
}

// RemoveAll("dangling") must remove the dangling symlink (like os.RemoveAll and the full-capability FS),
// or fail; the fallback reports success and leaves it in place.
func TestHuntRemoveAllFallbackDanglingSymlink(t *testing.T) {
	dirFull, full := huntRemoveAllTree(t)
	if err := hackpadfs.RemoveAll(full, "dangling"); err != nil {
		t.Fatal(err)
	}
	if _, err := os.Lstat(filepath.Join(dirFull, "dangling")); err == nil {
		t.Fatal("reference run did not remove the link")
	}

	dirMasked, fs := huntRemoveAllTree(t)
	err := hackpadfs.RemoveAll(huntNoRemoveAll{fs}, "dangling")
	_, lstatErr := os.Lstat(filepath.Join(dirMasked, "dangling"))
	if err == nil && lstatErr == nil {
		t.Errorf("RemoveAll fallback returned nil but the dangling symlink still exists")
	}
}
