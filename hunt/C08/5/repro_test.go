//go:build !wasm && !windows

package hackpadfs_test

import (
	"errors"
	"os"
	"path/filepath"
	"strings"
	"testing"

	"github.com/hack-pad/hackpadfs"
	hpos "github.com/hack-pad/hackpadfs/os"
)

// huntNoLstat exposes Open and Stat but hides LstatFS.
type huntNoLstatI interface {
	hackpadfs.FS
	hackpadfs.StatFS
}
type huntNoLstat struct{ huntNoLstatI }

// LstatOrStat on a symlink: with all interfaces exposed it describes the link itself; with LstatFS hidden it silently
// describes the link's target (or fails with ErrNotExist for a dangling link) instead of failing with ErrNotImplemented.
func TestHuntLstatOrStatDiffersWithoutLstat(t *testing.T) {
	dir, err := filepath.EvalSymlinks(t.TempDir())
	if err != nil {
		t.Fatal(err)
	}
	if err := os.WriteFile(filepath.Join(dir, "f"), []byte("contents"), 0644); err != nil {
		t.Fatal(err)
	}
	if err := os.Symlink(filepath.Join(dir, "f"), filepath.Join(dir, "link")); err != nil {
		t.Fatal(err)
	}
	if err := os.Symlink(filepath.Join(dir, "missing"), filepath.Join(dir, "dangling")); err != nil {
		t.Fatal(err)
	}
	sub, err := hpos.NewFS().Sub(strings.TrimPrefix(filepath.ToSlash(dir), "/"))
	if err != nil {
		t.Fatal(err)
	}
	full := sub.(*hpos.FS)
	masked := huntNoLstat{full}

	for _, name := range []string{"link", "dangling"} {
		fullInfo, fullErr := hackpadfs.LstatOrStat(full, name)
		if fullErr != nil {
			t.Fatal(fullErr)
		}
		maskedInfo, maskedErr := hackpadfs.LstatOrStat(masked, name)
		switch {
		case errors.Is(maskedErr, hackpadfs.ErrNotImplemented):
			// allowed by the property
		case maskedErr != nil:
			t.Errorf("LstatOrStat(%q): full-capability FS succeeded, masked FS failed with %v", name, maskedErr)
		case maskedInfo.Mode() != fullInfo.Mode() || maskedInfo.Size() != fullInfo.Size():
			t.Errorf("LstatOrStat(%q): full-capability FS returned mode %v size %d, masked FS returned mode %v size %d",
				name, fullInfo.Mode(), fullInfo.Size(), maskedInfo.Mode(), maskedInfo.Size())
		}
	}
}
