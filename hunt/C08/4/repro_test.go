package hackpadfs_test

import (
	"errors"
	"testing"

	"github.com/hack-pad/hackpadfs"
	"github.com/hack-pad/hackpadfs/mem"
)

// huntPlainFile exposes only the mandatory File methods (Read, Stat, Close): the optional ReadDir is masked.
type huntPlainFile struct{ hackpadfs.File }

// huntPlainFileFS exposes only Open; the files it hands out do not expose ReadDir.
type huntPlainFileFS struct{ fs hackpadfs.FS }

func (p huntPlainFileFS) Open(name string) (hackpadfs.File, error) {
	f, err := p.fs.Open(name)
	if err != nil {
		return nil, err
	}
	return huntPlainFile{f}, nil
}

// With neither ReadDirFS nor DirReaderFile available, hackpadfs.ReadDir (and RemoveAll, which relies on it) must fail
// with an error matching ErrNotImplemented, like ReadDirFile does. The io/fs fallback returns errors.New("not implemented").
func TestHuntReadDirFallbackErrorIsNotErrNotImplemented(t *testing.T) {
	full, err := mem.NewFS()
	if err != nil {
		t.Fatal(err)
	}
	if err := full.MkdirAll("d/sub", 0755); err != nil {
		t.Fatal(err)
	}
	if _, err := hackpadfs.ReadDir(full, "d"); err != nil {
		t.Fatal("full-capability ReadDir:", err)
	}

	masked := huntPlainFileFS{full}

	// the per-file helper behaves as the property demands
	f, err := masked.Open("d")
	if err != nil {
		t.Fatal(err)
	}
	_, err = hackpadfs.ReadDirFile(f, -1)
	_ = f.Close()
	if !errors.Is(err, hackpadfs.ErrNotImplemented) {
		t.Fatalf("ReadDirFile: expected ErrNotImplemented, got %v", err)
	}

	_, err = hackpadfs.ReadDir(masked, "d")
	if err == nil {
		t.Fatal("unexpected success")
	}
	if !errors.Is(err, hackpadfs.ErrNotImplemented) {
		t.Errorf("ReadDir on an FS without any directory-reading capability: error %q does not match ErrNotImplemented", err)
	}

	err = hackpadfs.RemoveAll(masked, "d")
	if err == nil {
		t.Fatal("unexpected success")
	}
	if !errors.Is(err, hackpadfs.ErrNotImplemented) {
		t.Errorf("RemoveAll on an FS without any directory-reading capability: error %q does not match ErrNotImplemented", err)
	}
}
