package hackpadfs_test

import (
	"testing"

	"github.com/hack-pad/hackpadfs"
	"github.com/hack-pad/hackpadfs/mem"
	"github.com/hack-pad/hackpadfs/mount"
)

func huntNestedMount(t *testing.T) *mount.FS {
	t.Helper()
	root, err := mem.NewFS()
	if err != nil {
		t.Fatal(err)
	}
	if err := root.MkdirAll("d/mnt", 0755); err != nil {
		t.Fatal(err)
	}
	inner, err := mem.NewFS()
	if err != nil {
		t.Fatal(err)
	}
	if err := hackpadfs.WriteFullFile(inner, "file", []byte("inner"), 0644); err != nil {
		t.Fatal(err)
	}
	fs, err := mount.NewFS(root)
	if err != nil {
		t.Fatal(err)
	}
	if err := fs.AddMount("d/mnt", inner); err != nil {
		t.Fatal(err)
	}
	if _, err := hackpadfs.Stat(fs, "d/mnt/file"); err != nil {
		t.Fatal(err)
	}
	return fs
}

// mount.FS exposes only MountFS: RemoveAll's MountFS branch hands the whole job to the single file system that owns "d",
// which knows nothing about the file system mounted at d/mnt. RemoveAll reports success, yet d/mnt/file is still there.
func TestHuntRemoveAllOverMountReportsSuccessButLeavesFiles(t *testing.T) {
	fs := huntNestedMount(t)
	if err := hackpadfs.RemoveAll(fs, "d"); err != nil {
		return // an error would be fine
	}
	if _, err := hackpadfs.Stat(fs, "d/mnt/file"); err == nil {
		t.Errorf("RemoveAll(\"d\") returned nil but d/mnt/file still exists")
	}
}

// The same delegation in Sub: the sub file system of "d" no longer sees what is mounted at d/mnt.
func TestHuntSubOverMountLosesNestedMount(t *testing.T) {
	fs := huntNestedMount(t)
	sub, err := hackpadfs.Sub(fs, "d")
	if err != nil {
		return
	}
	if _, err := hackpadfs.Stat(sub, "mnt/file"); err != nil {
		t.Errorf("Stat(fs, \"d/mnt/file\") succeeds but Stat(Sub(fs, \"d\"), \"mnt/file\") fails: %v", err)
	}
}
