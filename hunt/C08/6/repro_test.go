package hackpadfs_test

import (
	"errors"
	"fmt"
	"testing"

	"github.com/hack-pad/hackpadfs"
	"github.com/hack-pad/hackpadfs/mem"
)

// huntBareErrFS is a file system whose Mkdir reports an existing name with an error that matches ErrExist
// but is not a *PathError (errors.Is(err, ErrExist) is all a caller may rely on).
type huntBareErrFS struct{ *mem.FS }

func (fs huntBareErrFS) Mkdir(name string, perm hackpadfs.FileMode) error {
	err := fs.FS.Mkdir(name, perm)
	if errors.Is(err, hackpadfs.ErrExist) {
		return fmt.Errorf("mkdir %s: %w", name, hackpadfs.ErrExist)
	}
	return err
}

// huntRootedErrFS is a file system whose Mkdir reports errors with its own spelling of the path ("/a" for "a").
type huntRootedErrFS struct{ *mem.FS }

func (fs huntRootedErrFS) Mkdir(name string, perm hackpadfs.FileMode) error {
	err := fs.FS.Mkdir(name, perm)
	var pathErr *hackpadfs.PathError
	if errors.As(err, &pathErr) {
		return &hackpadfs.PathError{Op: pathErr.Op, Path: "/" + pathErr.Path, Err: pathErr.Err}
	}
	return err
}

type huntNoMkdirAllI interface {
	hackpadfs.FS
	hackpadfs.OpenFileFS
	hackpadfs.MkdirFS
	hackpadfs.StatFS
}
type huntNoMkdirAll struct{ huntNoMkdirAllI }

// MkdirAll over an existing directory succeeds when MkdirAllFS is exposed; the fallback loop only recognises an
// "already exists" Mkdir failure when it is a *PathError carrying a path it can Stat, otherwise it fails with ErrExist.
func TestHuntMkdirAllFallbackDependsOnMkdirErrorShape(t *testing.T) {
	for name, wrap := range map[string]func(*mem.FS) interface {
		huntNoMkdirAllI
		hackpadfs.MkdirAllFS
	}{
		"bare error": func(m *mem.FS) interface {
			huntNoMkdirAllI
			hackpadfs.MkdirAllFS
		} { return huntBareErrFS{m} },
		"own path in err": func(m *mem.FS) interface {
			huntNoMkdirAllI
			hackpadfs.MkdirAllFS
		} { return huntRootedErrFS{m} },
	} {
		m, err := mem.NewFS()
		if err != nil {
			t.Fatal(err)
		}
		if err := m.Mkdir("a", 0755); err != nil {
			t.Fatal(err)
		}
		full := wrap(m)
		if err := hackpadfs.MkdirAll(full, "a/b", 0755); err != nil {
			t.Fatalf("%s: full-capability MkdirAll: %v", name, err)
		}
		if err := hackpadfs.Remove(full, "a/b"); err != nil {
			t.Fatal(err)
		}
		err = hackpadfs.MkdirAll(huntNoMkdirAll{full}, "a/b", 0755)
		if err != nil && !errors.Is(err, hackpadfs.ErrNotImplemented) {
			t.Errorf("%s: MkdirAll(\"a/b\") with existing directory \"a\": full-capability FS succeeded, fallback failed with %v", name, err)
		}
	}
}
