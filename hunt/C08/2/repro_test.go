//go:build !wasm && !windows

package hackpadfs_test

import (
	"errors"
	"net"
	"os"
	"path/filepath"
	"strings"
	"syscall"
	"testing"

	"github.com/hack-pad/hackpadfs"
	hpos "github.com/hack-pad/hackpadfs/os"
)

// huntOpenOnly hides every optional interface: Stat, Chmod, Chown take their "open the file, then use the handle" fallbacks.
type huntOpenOnly struct{ hackpadfs.FS }

func huntOSFS(t *testing.T, dir string) *hpos.FS {
	t.Helper()
	fs, err := hpos.NewFS().Sub(strings.TrimPrefix(filepath.ToSlash(dir), "/"))
	if err != nil {
		t.Fatal(err)
	}
	return fs.(*hpos.FS)
}

func huntSameOrNotImplemented(t *testing.T, what string, fullErr, maskedErr error) {
	t.Helper()
	if errors.Is(maskedErr, hackpadfs.ErrNotImplemented) {
		return
	}
	if (fullErr == nil) != (maskedErr == nil) {
		t.Errorf("%s: full-capability FS returned %v, masked FS returned %v (neither the same result nor ErrNotImplemented)", what, fullErr, maskedErr)
	}
}

// A unix socket file can be stat'ed and chmod'ed by name, but cannot be opened: the fallbacks fail with ENXIO.
func TestHuntOpenBasedFallbacksSocket(t *testing.T) {
	dir, err := os.MkdirTemp("", "h") // short path: unix socket names are limited to ~108 bytes
	if err != nil {
		t.Fatal(err)
	}
	defer os.RemoveAll(dir)
	dir, _ = filepath.EvalSymlinks(dir)
	l, err := net.Listen("unix", filepath.Join(dir, "sock"))
	if err != nil {
		t.Skip("cannot create a unix socket:", err)
	}
	defer l.Close()

	full := huntOSFS(t, dir)
	masked := huntOpenOnly{full}

	_, fullErr := hackpadfs.Stat(full, "sock")
	_, maskedErr := hackpadfs.Stat(masked, "sock")
	huntSameOrNotImplemented(t, "Stat(sock)", fullErr, maskedErr)

	fullErr = hackpadfs.Chmod(full, "sock", 0700)
	maskedErr = hackpadfs.Chmod(masked, "sock", 0700)
	huntSameOrNotImplemented(t, "Chmod(sock)", fullErr, maskedErr)

	fullErr = hackpadfs.Chown(full, "sock", os.Getuid(), os.Getgid())
	maskedErr = hackpadfs.Chown(masked, "sock", os.Getuid(), os.Getgid())
	huntSameOrNotImplemented(t, "Chown(sock)", fullErr, maskedErr)
}

// The same root cause with an ordinary file: a file without read permission can be stat'ed and chmod'ed by its owner,
// but not opened. Root bypasses permission checks, so when running as root the effective uid is dropped for the check.
func TestHuntOpenBasedFallbacksUnreadableFile(t *testing.T) {
	dir, err := filepath.EvalSymlinks(t.TempDir())
	if err != nil {
		t.Fatal(err)
	}
	const uid = 65534
	if os.Geteuid() == 0 {
		// make the directory chain reachable for, and the files owned by, the unprivileged uid
		for _, d := range []string{filepath.Dir(dir), dir} {
			if err := os.Chmod(d, 0755); err != nil {
				t.Fatal(err)
			}
		}
		if err := os.Chown(dir, uid, uid); err != nil {
			t.Fatal(err)
		}
	}
	name := filepath.Join(dir, "writeonly")
	if err := os.WriteFile(name, []byte("x"), 0200); err != nil {
		t.Fatal(err)
	}
	if os.Geteuid() == 0 {
		if err := os.Chown(name, uid, uid); err != nil {
			t.Fatal(err)
		}
		if err := syscall.Seteuid(uid); err != nil {
			t.Skip("cannot drop privileges:", err)
		}
		defer func() {
			if err := syscall.Seteuid(0); err != nil {
				panic(err)
			}
		}()
	}

	full := huntOSFS(t, dir)
	masked := huntOpenOnly{full}

	_, fullErr := hackpadfs.Stat(full, "writeonly")
	_, maskedErr := hackpadfs.Stat(masked, "writeonly")
	huntSameOrNotImplemented(t, "Stat(writeonly)", fullErr, maskedErr)

	fullErr = hackpadfs.Chmod(full, "writeonly", 0200)
	maskedErr = hackpadfs.Chmod(masked, "writeonly", 0200)
	huntSameOrNotImplemented(t, "Chmod(writeonly)", fullErr, maskedErr)
}
