package hackpadfs_test

import (
	"errors"
	"testing"

	"github.com/hack-pad/hackpadfs"
	"github.com/hack-pad/hackpadfs/mem"
)

// huntBareFile exposes only the mandatory File methods (Read, Stat, Close): the optional Write is masked.
type huntBareFile struct{ hackpadfs.File }

// huntBareFileFS exposes Open and OpenFile of the wrapped FS; the files it hands out do not expose Write.
type huntBareFileFS struct{ fs hackpadfs.OpenFileFS }

func (b huntBareFileFS) Open(name string) (hackpadfs.File, error) {
	f, err := b.fs.Open(name)
	if err != nil {
		return nil, err
	}
	return huntBareFile{f}, nil
}

func (b huntBareFileFS) OpenFile(name string, flag int, perm hackpadfs.FileMode) (hackpadfs.File, error) {
	f, err := b.fs.OpenFile(name, flag, perm)
	if err != nil {
		return nil, err
	}
	return huntBareFile{f}, nil
}

// WriteFullFile's fallback opens with Create|Truncate first and only then discovers that the file cannot be written:
// it fails with ErrNotImplemented after having destroyed the old contents (or created a new empty file).
func TestHuntWriteFullFileNotImplementedButTruncated(t *testing.T) {
	full, err := mem.NewFS()
	if err != nil {
		t.Fatal(err)
	}
	if err := hackpadfs.WriteFullFile(full, "f", []byte("precious"), 0644); err != nil {
		t.Fatal(err)
	}

	masked := huntBareFileFS{full}
	err = hackpadfs.WriteFullFile(masked, "f", []byte("new"), 0644)
	if !errors.Is(err, hackpadfs.ErrNotImplemented) {
		t.Fatalf("expected ErrNotImplemented from the masked FS, got %v", err)
	}
	got, readErr := hackpadfs.ReadFile(full, "f")
	if readErr != nil {
		t.Fatal(readErr)
	}
	if string(got) != "precious" {
		t.Errorf("WriteFullFile failed with ErrNotImplemented but changed the file: contents %q, want %q", got, "precious")
	}

	err = hackpadfs.WriteFullFile(masked, "created", []byte("new"), 0644)
	if !errors.Is(err, hackpadfs.ErrNotImplemented) {
		t.Fatalf("expected ErrNotImplemented from the masked FS, got %v", err)
	}
	if _, statErr := hackpadfs.Stat(full, "created"); statErr == nil {
		t.Errorf("WriteFullFile failed with ErrNotImplemented but created the file %q", "created")
	}
}
