package cache_test

import (
	"bytes"
	"errors"
	"io"
	"testing"

	"github.com/hack-pad/hackpadfs"
	"github.com/hack-pad/hackpadfs/cache"
	"github.com/hack-pad/hackpadfs/mem"
)

// huntSrc wraps a source FS; the Read call with index failReadAt (counted over all files opened from it) fails.
type huntSrc struct {
	hackpadfs.FS
	reads      int
	failReadAt int
}

func (s *huntSrc) Open(name string) (hackpadfs.File, error) {
	f, err := s.FS.Open(name)
	if err != nil {
		return nil, err
	}
	return &huntSrcFile{File: f, s: s}, nil
}

type huntSrcFile struct {
	hackpadfs.File
	s *huntSrc
}

func (f *huntSrcFile) Read(p []byte) (int, error) {
	idx := f.s.reads
	f.s.reads++
	if idx == f.s.failReadAt {
		return 0, errors.New("injected source read fault")
	}
	return f.File.Read(p)
}

func (f *huntSrcFile) Seek(off int64, whence int) (int64, error) {
	return hackpadfs.SeekFile(f.File, off, whence)
}

// History: fill succeeds; the entry is evicted from the cache store (Remove, which Open explicitly
// tolerates via its ErrNotExist fall-through); the re-fill fails on a source read after the first chunk.
// The failing Open reports the error, but every later (fault-free) Open serves the truncated cache file.
func TestHuntStaleCachedFlagServesPartialRefill(t *testing.T) {
	data := bytes.Repeat([]byte("0123456789abcdef"), 100) // 1600 bytes: 4 chunks of <=512
	source, err := mem.NewFS()
	if err != nil {
		t.Fatal(err)
	}
	w, err := hackpadfs.Create(source, "f")
	if err != nil {
		t.Fatal(err)
	}
	if _, err := hackpadfs.WriteFile(w, data); err != nil {
		t.Fatal(err)
	}
	_ = w.Close()

	store, err := mem.NewFS()
	if err != nil {
		t.Fatal(err)
	}
	src := &huntSrc{FS: source, failReadAt: -1}
	c, err := cache.NewReadOnlyFS(src, store, cache.ReadOnlyOptions{})
	if err != nil {
		t.Fatal(err)
	}

	// 1. first open fills the cache completely
	got, err := hackpadfs.ReadFile(c, "f")
	if err != nil || !bytes.Equal(got, data) {
		t.Fatalf("first open: err=%v len=%d", err, len(got))
	}
	// 2. the cache entry is evicted
	if err := store.Remove("f"); err != nil {
		t.Fatal(err)
	}
	// 3. the re-fill fails on its second source read
	src.failReadAt = src.reads + 1
	if f, err := c.Open("f"); err == nil {
		_ = f.Close()
		t.Fatal("open with a failing fill must report an error")
	}
	src.failReadAt = -1
	// 4. fault-free re-opens: complete bytes or an error, never a truncated file
	for i := 0; i < 3; i++ {
		f, err := c.Open("f")
		if err != nil {
			continue
		}
		got, rerr := io.ReadAll(f)
		_ = f.Close()
		if rerr == nil && !bytes.Equal(got, data) {
			t.Errorf("re-open #%d after failed re-fill served %d bytes, source has %d", i, len(got), len(data))
		}
	}
}
