package tar

import (
	"archive/tar"
	"bytes"
	"context"
	"sort"
	"testing"

	"github.com/hack-pad/hackpadfs"
)

// A pax global extended header (typeflag 'g', what `git archive` puts at the start of every archive) is
// metadata, not a member of the archive's tree. archive/tar's Reader.Next hands it to the caller as a header
// named "pax_global_header"; readProcessFile only distinguishes "directory" from "everything else", so it
// creates an empty regular file with mode 0 under that name.
func TestHuntPaxGlobalHeaderBecomesFile(t *testing.T) {
	var buf bytes.Buffer
	w := tar.NewWriter(&buf)
	if err := w.WriteHeader(&tar.Header{Typeflag: tar.TypeXGlobalHeader, Name: "pax_global_header", PAXRecords: map[string]string{"comment": "0123456789abcdef"}}); err != nil {
		t.Fatal(err)
	}
	if err := w.WriteHeader(&tar.Header{Typeflag: tar.TypeReg, Name: "f", Mode: 0644, Size: 1}); err != nil {
		t.Fatal(err)
	}
	if _, err := w.Write([]byte("x")); err != nil {
		t.Fatal(err)
	}
	if err := w.Close(); err != nil {
		t.Fatal(err)
	}

	fs, err := NewReaderFS(context.Background(), bytes.NewReader(buf.Bytes()), ReaderFSOptions{})
	if err != nil {
		t.Fatal(err)
	}
	<-fs.Done()
	if err := fs.UnarchiveErr(); err != nil {
		t.Fatal(err)
	}
	entries, err := hackpadfs.ReadDir(fs, ".")
	if err != nil {
		t.Fatal(err)
	}
	var names []string
	for _, e := range entries {
		names = append(names, e.Name())
	}
	sort.Strings(names)
	if len(names) != 1 || names[0] != "f" {
		t.Fatalf("archive holds the single regular file \"f\" (plus a pax global header record); unpacked root contains %q", names)
	}
}
