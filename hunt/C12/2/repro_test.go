package tar

import (
	"archive/tar"
	"bytes"
	"context"
	"sync"
	"sync/atomic"
	"testing"
	"time"
)

// An archive whose only entry is the directory "../" resolves outside the root, so unpacking must always
// end with a non-nil UnarchiveErr. The error is produced by a background goroutine (Mkdir("..") fails), which
// sends it on errs and then calls wg.Done(). readErr's final select waits on both errs and done; when both are
// ready Go picks one at random, so the error is sometimes dropped and unpacking "succeeds".
//
// Each ReaderFS below is created and observed by exactly one goroutine; several independent instances are run
// side by side only to get through the iterations faster (the drop needs the final select to see both channels
// ready, which happens in roughly 1 of 1000 runs).
func TestHuntEscapingDirErrorDropped(t *testing.T) {
	var buf bytes.Buffer
	w := tar.NewWriter(&buf)
	if err := w.WriteHeader(&tar.Header{Name: "../", Typeflag: tar.TypeDir, Mode: 0755}); err != nil {
		t.Fatal(err)
	}
	if err := w.Close(); err != nil {
		t.Fatal(err)
	}
	archive := buf.Bytes()

	const workers = 8
	const perWorker = 20000
	deadline := time.Now().Add(3 * time.Minute)
	var dropped, runs int64
	var wg sync.WaitGroup
	for wk := 0; wk < workers; wk++ {
		wg.Add(1)
		go func() {
			defer wg.Done()
			for i := 0; i < perWorker && atomic.LoadInt64(&dropped) == 0 && time.Now().Before(deadline); i++ {
				fs, err := NewReaderFS(context.Background(), bytes.NewReader(archive), ReaderFSOptions{})
				if err != nil {
					t.Error(err)
					return
				}
				<-fs.Done()
				atomic.AddInt64(&runs, 1)
				if fs.UnarchiveErr() == nil {
					atomic.AddInt64(&dropped, 1)
				}
			}
		}()
	}
	wg.Wait()
	if dropped > 0 {
		t.Fatalf("archive with the single directory entry \"../\" unpacked with UnarchiveErr() == nil (after %d runs); the property requires unpacking to fail", runs)
	}
}
