package tar

import (
	"archive/tar"
	"bytes"
	"context"
	"fmt"
	"testing"

	"github.com/hack-pad/hackpadfs"
)

// Every directory is an explicit entry (mode 0755) that is immediately followed by one of its children.
// The directory entry's Mkdir(p, 0755) runs in a background goroutine while the foreground loop already
// runs MkdirAll(p, 0700) for the child. mem/keyvalue Mkdir and MkdirAll are check-then-set, so when the
// background Mkdir completes between the foreground's check and its set, the foreground overwrites the
// directory with 0700, the background Mkdir has reported success (so no Chmod follows), and the directory
// keeps 0700 instead of the archive's 0755.
func TestHuntExplicitDirModeLostWhenChildFollows(t *testing.T) {
	const dirs = 200
	var buf bytes.Buffer
	w := tar.NewWriter(&buf)
	for i := 0; i < dirs; i++ {
		d := fmt.Sprintf("d%03d", i)
		if err := w.WriteHeader(&tar.Header{Name: d + "/", Typeflag: tar.TypeDir, Mode: 0755}); err != nil {
			t.Fatal(err)
		}
		if err := w.WriteHeader(&tar.Header{Name: d + "/f", Typeflag: tar.TypeReg, Mode: 0644, Size: 1}); err != nil {
			t.Fatal(err)
		}
		if _, err := w.Write([]byte("x")); err != nil {
			t.Fatal(err)
		}
	}
	if err := w.Close(); err != nil {
		t.Fatal(err)
	}
	archive := buf.Bytes()

	for run := 0; run < 300; run++ {
		fs, err := NewReaderFS(context.Background(), bytes.NewReader(archive), ReaderFSOptions{})
		if err != nil {
			t.Fatal(err)
		}
		<-fs.Done()
		if err := fs.UnarchiveErr(); err != nil {
			t.Fatal(err)
		}
		for i := 0; i < dirs; i++ {
			d := fmt.Sprintf("d%03d", i)
			info, err := hackpadfs.Stat(fs, d)
			if err != nil {
				t.Fatal(err)
			}
			if info.Mode().Perm() != 0755 {
				t.Fatalf("run %d: directory entry %q has mode 0755 in the archive but %v in the unpacked file system", run, d, info.Mode())
			}
		}
	}
}
