package tar

import (
	"archive/tar"
	"bytes"
	"context"
	"testing"

	"github.com/hack-pad/hackpadfs"
)

// Tar member names are byte strings; "caf\xe9.txt" (Latin-1 "café.txt") is a perfectly ordinary member of an
// archive made on a non-UTF-8 system, and it resolves inside the root. The destination mem FS rejects every
// path that is not valid UTF-8 (hackpadfs.ValidPath), so the whole unpacking fails and the entry is missing.
func TestHuntNonUTF8NameFailsUnpack(t *testing.T) {
	const name = "caf\xe9.txt"
	var buf bytes.Buffer
	w := tar.NewWriter(&buf)
	if err := w.WriteHeader(&tar.Header{Name: name, Typeflag: tar.TypeReg, Mode: 0644, Size: 1, Format: tar.FormatGNU}); err != nil {
		t.Fatal(err)
	}
	if _, err := w.Write([]byte("x")); err != nil {
		t.Fatal(err)
	}
	if err := w.Close(); err != nil {
		t.Fatal(err)
	}
	fs, err := NewReaderFS(context.Background(), bytes.NewReader(buf.Bytes()), ReaderFSOptions{})
	if err != nil {
		t.Fatal(err)
	}
	<-fs.Done()
	if err := fs.UnarchiveErr(); err != nil {
		t.Fatalf("well-formed archive with the single regular entry %q failed to unpack: %v", name, err)
	}
	entries, err := hackpadfs.ReadDir(fs, ".")
	if err != nil {
		t.Fatal(err)
	}
	if len(entries) != 1 || entries[0].Name() != name {
		t.Fatalf("unexpected root contents: %v", entries)
	}
}
