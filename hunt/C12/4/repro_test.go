package tar

import (
	"archive/tar"
	"bytes"
	"context"
	"testing"

	"github.com/hack-pad/hackpadfs"
)

func huntStickyUnpack(t *testing.T, childFirst bool) hackpadfs.FileMode {
	var buf bytes.Buffer
	w := tar.NewWriter(&buf)
	writeChild := func() {
		if err := w.WriteHeader(&tar.Header{Name: "tmp/f", Typeflag: tar.TypeReg, Mode: 0644, Size: 1}); err != nil {
			t.Fatal(err)
		}
		if _, err := w.Write([]byte("x")); err != nil {
			t.Fatal(err)
		}
	}
	if childFirst {
		writeChild()
	}
	// a world-writable sticky directory, like /tmp
	if err := w.WriteHeader(&tar.Header{Name: "tmp/", Typeflag: tar.TypeDir, Mode: 01777}); err != nil {
		t.Fatal(err)
	}
	if err := w.Close(); err != nil {
		t.Fatal(err)
	}
	fs, err := NewReaderFS(context.Background(), bytes.NewReader(buf.Bytes()), ReaderFSOptions{})
	if err != nil {
		t.Fatal(err)
	}
	<-fs.Done()
	if err := fs.UnarchiveErr(); err != nil {
		t.Fatal(err)
	}
	info, err := hackpadfs.Stat(fs, "tmp")
	if err != nil {
		t.Fatal(err)
	}
	return info.Mode()
}

// The same directory entry (mode 01777) ends up with a different mode depending on whether one of its children
// precedes it in the archive: when the directory does not exist yet it is created with Mkdir, which keeps only
// the 0777 bits; when a child came first the directory already exists and is Chmod-ed instead, which also keeps
// setuid/setgid/sticky.
func TestHuntDirModeDependsOnEntryOrder(t *testing.T) {
	alone := huntStickyUnpack(t, false)
	childFirst := huntStickyUnpack(t, true)
	if alone != childFirst {
		t.Fatalf("directory entry tmp/ (mode 01777): unpacked mode is %v when the entry creates the directory, but %v when a child entry precedes it", alone, childFirst)
	}
}
