package tar

import (
	"archive/tar"
	"bytes"
	"context"
	"testing"

	"github.com/hack-pad/hackpadfs"
)

// Name normalisation treats "/x" as "x" (the leading slash is dropped) and rejects "../x". The name "/../x"
// is the composition of both: dropping the leading slash leaves "../x", which points outside the root, so
// unpacking should fail (this is what GNU tar and Python's tarfile filters do). resolvePath instead runs
// path.Clean on the still-rooted name first, which silently swallows the "..", and the entry is created as "x".
func TestHuntRootedDotDotAccepted(t *testing.T) {
	var buf bytes.Buffer
	w := tar.NewWriter(&buf)
	if err := w.WriteHeader(&tar.Header{Name: "/../x", Typeflag: tar.TypeReg, Mode: 0644, Size: 1}); err != nil {
		t.Fatal(err)
	}
	if _, err := w.Write([]byte("x")); err != nil {
		t.Fatal(err)
	}
	if err := w.Close(); err != nil {
		t.Fatal(err)
	}
	fs, err := NewReaderFS(context.Background(), bytes.NewReader(buf.Bytes()), ReaderFSOptions{})
	if err != nil {
		t.Fatal(err)
	}
	<-fs.Done()
	if fs.UnarchiveErr() == nil {
		_, statErr := hackpadfs.Stat(fs, "x")
		t.Fatalf("entry \"/../x\" did not make unpacking fail; UnarchiveErr() == nil, Stat(\"x\") error: %v", statErr)
	}
}
