package mount_test

import (
	"testing"

	"github.com/hack-pad/hackpadfs"
	"github.com/hack-pad/hackpadfs/mem"
	"github.com/hack-pad/hackpadfs/mount"
)

// A file system is mounted at "a/b" first and another one at its ancestor "a" afterwards.
// "a/b" still resolves to the first mount (Stat succeeds, it is a directory), but listing "a" omits the child "b".
func TestHuntMountOverAncestorHidesMountPointFromListing(t *testing.T) {
	root, err := mem.NewFS()
	if err != nil {
		t.Fatal(err)
	}
	if err := root.MkdirAll("a/b", 0755); err != nil {
		t.Fatal(err)
	}
	fs, err := mount.NewFS(root)
	if err != nil {
		t.Fatal(err)
	}
	inner, _ := mem.NewFS()
	outer, _ := mem.NewFS()
	if err := fs.AddMount("a/b", inner); err != nil {
		t.Fatal(err)
	}
	if err := fs.AddMount("a", outer); err != nil {
		t.Fatal(err)
	}

	info, err := hackpadfs.Stat(fs, "a/b")
	if err != nil || !info.IsDir() {
		t.Fatalf("a/b must still be a reachable directory (the mount point): %v %v", info, err)
	}
	entries, err := hackpadfs.ReadDir(fs, "a")
	if err != nil {
		t.Fatal(err)
	}
	count := 0
	for _, entry := range entries {
		if entry.Name() == "b" {
			count++
			if !entry.IsDir() {
				t.Error("mount point b must be listed as a directory")
			}
		}
	}
	if count != 1 {
		t.Errorf("listing of \"a\" must contain the mount point \"b\" exactly once (Stat(a/b) succeeds), got %d times; entries: %d", count, len(entries))
	}

	// same through a directory handle read in pages
	dir, err := fs.Open("a")
	if err != nil {
		t.Fatal(err)
	}
	defer func() { _ = dir.Close() }()
	page, err := hackpadfs.ReadDirFile(dir, 1)
	if err != nil || len(page) != 1 || page[0].Name() != "b" {
		t.Errorf("first page of \"a\" must be [b] with nil error, got %d entries, err %v", len(page), err)
	}
}
