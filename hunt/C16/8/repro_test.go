package mount_test

import (
	"testing"

	"github.com/hack-pad/hackpadfs"
	"github.com/hack-pad/hackpadfs/mem"
	"github.com/hack-pad/hackpadfs/mount"
)

// A file system whose root is a regular file (a Sub rooted at a file) is accepted as a mount;
// the mount point is then listed as a directory while Stat and ReadDir of it say it is a file.
func TestHuntMountPointKindDisagreesWhenMountedRootIsAFile(t *testing.T) {
	root, err := mem.NewFS()
	if err != nil {
		t.Fatal(err)
	}
	if err := root.Mkdir("mnt", 0755); err != nil {
		t.Fatal(err)
	}
	fs, err := mount.NewFS(root)
	if err != nil {
		t.Fatal(err)
	}
	other, _ := mem.NewFS()
	f, err := hackpadfs.Create(other, "file")
	if err != nil {
		t.Fatal(err)
	}
	_ = f.Close()
	fileRooted, err := hackpadfs.Sub(other, "file")
	if err != nil {
		return // refusing a Sub rooted at a file would be fine
	}
	if err := fs.AddMount("mnt", fileRooted); err != nil {
		return // refusing the mount would be fine
	}

	entries, err := hackpadfs.ReadDir(fs, ".")
	if err != nil || len(entries) != 1 {
		t.Fatal(entries, err)
	}
	stat, err := hackpadfs.Stat(fs, "mnt")
	if err != nil {
		t.Fatal(err)
	}
	if entries[0].IsDir() != stat.IsDir() {
		t.Errorf("mount point %q listed with IsDir=%v but Stat says IsDir=%v", entries[0].Name(), entries[0].IsDir(), stat.IsDir())
	}
}
