package mem_test

import (
	"errors"
	"testing"

	"github.com/hack-pad/hackpadfs"
	"github.com/hack-pad/hackpadfs/mem"
)

// Listing a regular file through a handle opened write-only fails with "not implemented" instead of ErrNotDir.
// (os.File.ReadDir on an O_WRONLY regular file fails with ENOTDIR; read-only and read-write mem handles do return ErrNotDir.)
func TestHuntWriteOnlyHandleReadDirNotDir(t *testing.T) {
	fs, err := mem.NewFS()
	if err != nil {
		t.Fatal(err)
	}
	f, err := hackpadfs.Create(fs, "file")
	if err != nil {
		t.Fatal(err)
	}
	_ = f.Close()

	for _, flag := range []int{hackpadfs.FlagReadOnly, hackpadfs.FlagReadWrite, hackpadfs.FlagWriteOnly} {
		h, err := hackpadfs.OpenFile(fs, "file", flag, 0)
		if err != nil {
			t.Fatal(err)
		}
		for _, n := range []int{-1, 0, 1} {
			_, err := hackpadfs.ReadDirFile(h, n)
			if !errors.Is(err, hackpadfs.ErrNotDir) {
				t.Errorf("flag %d: ReadDir(%d) of a regular file must fail with ErrNotDir, got: %v", flag, n, err)
			}
		}
		_ = h.Close()
	}
}
