package mem_test

import (
	"io"
	"os"
	"path/filepath"
	"testing"

	"github.com/hack-pad/hackpadfs"
	"github.com/hack-pad/hackpadfs/mem"
)

// The byte offset of a key-value handle doubles as the cursor into its directory listing:
// a successful Seek on a directory handle makes ReadDir(-1) silently drop entries.
func TestHuntSeekOnDirHandleSkipsEntries(t *testing.T) {
	names := []string{"x", "y", "z"}

	// reference: os package on a temp dir
	tmp := t.TempDir()
	for _, name := range names {
		if err := os.WriteFile(filepath.Join(tmp, name), nil, 0644); err != nil {
			t.Fatal(err)
		}
	}
	osDir, err := os.Open(tmp)
	if err != nil {
		t.Fatal(err)
	}
	defer func() { _ = osDir.Close() }()
	if _, err := osDir.Seek(2, io.SeekStart); err != nil {
		t.Skip("os refuses to seek a directory:", err)
	}
	osEntries, err := osDir.ReadDir(-1)
	if err != nil {
		t.Fatal(err)
	}

	fs, err := mem.NewFS()
	if err != nil {
		t.Fatal(err)
	}
	for _, name := range names {
		f, err := hackpadfs.Create(fs, name)
		if err != nil {
			t.Fatal(err)
		}
		_ = f.Close()
	}
	dir, err := fs.Open(".")
	if err != nil {
		t.Fatal(err)
	}
	defer func() { _ = dir.Close() }()
	if _, err := hackpadfs.SeekFile(dir, 2, io.SeekStart); err != nil {
		return // refusing the seek would be fine
	}
	entries, err := hackpadfs.ReadDirFile(dir, -1)
	if err != nil {
		t.Fatal(err)
	}
	if len(entries) != len(osEntries) {
		t.Errorf("after Seek(2, SeekStart) on a never-listed directory handle: os lists %d entries, mem lists %d", len(osEntries), len(entries))
	}
}
