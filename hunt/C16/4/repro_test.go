package mem_test

import (
	"os"
	"path/filepath"
	"testing"

	"github.com/hack-pad/hackpadfs"
	"github.com/hack-pad/hackpadfs/mem"
)

// A directory handle is opened, the directory is renamed (its children are untouched), then the handle is listed for the first time.
// The os package lists the children (the handle follows the directory); the mem handle lists nothing.
func TestHuntDirHandleAfterRenameListsNothing(t *testing.T) {
	// reference behaviour of the os package
	tmp := t.TempDir()
	if err := os.Mkdir(filepath.Join(tmp, "d"), 0755); err != nil {
		t.Fatal(err)
	}
	if err := os.WriteFile(filepath.Join(tmp, "d", "x"), nil, 0644); err != nil {
		t.Fatal(err)
	}
	osDir, err := os.Open(filepath.Join(tmp, "d"))
	if err != nil {
		t.Fatal(err)
	}
	defer func() { _ = osDir.Close() }()
	if err := os.Rename(filepath.Join(tmp, "d"), filepath.Join(tmp, "e")); err != nil {
		t.Fatal(err)
	}
	osEntries, err := osDir.ReadDir(-1)
	if err != nil {
		t.Fatal(err)
	}

	fs, err := mem.NewFS()
	if err != nil {
		t.Fatal(err)
	}
	if err := fs.Mkdir("d", 0755); err != nil {
		t.Fatal(err)
	}
	f, err := hackpadfs.Create(fs, "d/x")
	if err != nil {
		t.Fatal(err)
	}
	_ = f.Close()
	dir, err := fs.Open("d")
	if err != nil {
		t.Fatal(err)
	}
	defer func() { _ = dir.Close() }()
	if err := fs.Rename("d", "e"); err != nil {
		t.Fatal(err)
	}
	entries, err := hackpadfs.ReadDirFile(dir, -1)
	if err != nil {
		t.Fatal(err)
	}
	if len(entries) != len(osEntries) {
		t.Errorf("fresh handle of the renamed directory: os lists %d children, mem lists %d", len(osEntries), len(entries))
	}
}
