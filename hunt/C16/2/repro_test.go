package mount_test

import (
	"testing"

	"github.com/hack-pad/hackpadfs"
	"github.com/hack-pad/hackpadfs/mem"
	"github.com/hack-pad/hackpadfs/mount"
)

// The parent directory of a mount point is renamed away through the mount FS and a fresh directory is created under the old name.
// The mount stays registered at "p/m": Stat finds it, listing "p" does not.
func TestHuntMountPointMissingAfterAncestorRename(t *testing.T) {
	root, err := mem.NewFS()
	if err != nil {
		t.Fatal(err)
	}
	if err := root.MkdirAll("p/m", 0755); err != nil {
		t.Fatal(err)
	}
	fs, err := mount.NewFS(root)
	if err != nil {
		t.Fatal(err)
	}
	mounted, _ := mem.NewFS()
	if err := fs.AddMount("p/m", mounted); err != nil {
		t.Fatal(err)
	}
	if err := hackpadfs.Rename(fs, "p", "q"); err != nil {
		t.Skip("rename of an ancestor of a mount point refused:", err)
	}
	if err := hackpadfs.Mkdir(fs, "p", 0755); err != nil {
		t.Fatal(err)
	}

	info, err := hackpadfs.Stat(fs, "p/m")
	if err != nil || !info.IsDir() {
		t.Skip("mount point no longer reachable:", err)
	}
	entries, err := hackpadfs.ReadDir(fs, "p")
	if err != nil {
		t.Fatal(err)
	}
	found := 0
	for _, entry := range entries {
		if entry.Name() == "m" && entry.IsDir() {
			found++
		}
	}
	if found != 1 {
		t.Errorf("Stat(p/m) succeeds (mount point, directory) but listing \"p\" contains it %d times (%d entries)", found, len(entries))
	}
}
