package mount_test

import (
	"testing"

	"github.com/hack-pad/hackpadfs"
	"github.com/hack-pad/hackpadfs/mem"
	"github.com/hack-pad/hackpadfs/mount"
)

// Sub over mount over mem: hackpadfs.Sub of a mount FS resolves the directory to ONE mounted file system
// and wraps only that one, so mounts at or below the sub directory disappear from listings.
func TestHuntSubOverMountDropsMountedChildren(t *testing.T) {
	root, err := mem.NewFS()
	if err != nil {
		t.Fatal(err)
	}
	if err := root.MkdirAll("top/mnt", 0755); err != nil {
		t.Fatal(err)
	}
	fs, err := mount.NewFS(root)
	if err != nil {
		t.Fatal(err)
	}
	mounted, _ := mem.NewFS()
	if err := fs.AddMount("top/mnt", mounted); err != nil {
		t.Fatal(err)
	}
	f, err := hackpadfs.Create(fs, "top/mnt/file")
	if err != nil {
		t.Fatal(err)
	}
	_ = f.Close()

	want, err := hackpadfs.ReadDir(fs, "top/mnt")
	if err != nil || len(want) != 1 {
		t.Fatal(want, err)
	}

	for _, subDir := range []string{".", "top"} {
		sub, err := hackpadfs.Sub(fs, subDir)
		if err != nil {
			t.Fatal(err)
		}
		name := "top/mnt"
		if subDir == "top" {
			name = "mnt"
		}
		got, err := hackpadfs.ReadDir(sub, name)
		if err != nil {
			t.Errorf("Sub(%q): ReadDir(%q): %v", subDir, name, err)
			continue
		}
		if len(got) != len(want) {
			t.Errorf("Sub(%q): ReadDir(%q) lists %d entries, the mount FS lists %d for the same directory", subDir, name, len(got), len(want))
		}
	}
}
