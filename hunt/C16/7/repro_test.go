//go:build !wasm && !windows && !plan9
// +build !wasm,!windows,!plan9

package os_test

import (
	"os"
	"path/filepath"
	"testing"

	"github.com/hack-pad/hackpadfs"
	osfs "github.com/hack-pad/hackpadfs/os"
)

// os.FS: a child that is a symbolic link is listed with kind "symlink" (and lstat Info), while Stat of the child follows the link.
func TestHuntOSListingKindOfSymlinkDisagreesWithStat(t *testing.T) {
	tmp := t.TempDir()
	if err := os.Mkdir(filepath.Join(tmp, "dir"), 0755); err != nil {
		t.Fatal(err)
	}
	if err := os.Symlink("dir", filepath.Join(tmp, "link")); err != nil {
		t.Skip("symlinks unsupported:", err)
	}
	fsPath, err := osfs.NewFS().FromOSPath(tmp)
	if err != nil {
		t.Fatal(err)
	}
	fs, err := osfs.NewFS().Sub(fsPath)
	if err != nil {
		t.Fatal(err)
	}
	entries, err := hackpadfs.ReadDir(fs, ".")
	if err != nil {
		t.Fatal(err)
	}
	if len(entries) != 2 {
		t.Fatal("expected 2 entries, got", len(entries))
	}
	for _, entry := range entries {
		stat, err := hackpadfs.Stat(fs, entry.Name())
		if err != nil {
			t.Fatal(err)
		}
		if entry.IsDir() != stat.IsDir() || entry.Type() != stat.Mode().Type() {
			t.Errorf("%q: listed kind %v (IsDir=%v) disagrees with Stat kind %v (IsDir=%v)", entry.Name(), entry.Type(), entry.IsDir(), stat.Mode().Type(), stat.IsDir())
		}
		info, err := entry.Info()
		if err != nil {
			t.Fatal(err)
		}
		if info.Mode() != stat.Mode() {
			t.Errorf("%q: entry Info mode %v disagrees with Stat mode %v", entry.Name(), info.Mode(), stat.Mode())
		}
	}
}
