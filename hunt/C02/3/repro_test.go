package mem_test

import (
	"io"
	"os"
	"path/filepath"
	"testing"

	"github.com/hack-pad/hackpadfs"
	"github.com/hack-pad/hackpadfs/mem"
)

// A zero-length Write on an O_APPEND handle has no effect on an os.File (offset stays where it was).
// The library moves the handle's offset to the end of the file, so the following Read returns different bytes.
func TestHuntZeroLengthAppendWriteMovesOffset(t *testing.T) {
	osPath := filepath.Join(t.TempDir(), "f")
	if err := os.WriteFile(osPath, []byte("hello"), 0666); err != nil {
		t.Fatal(err)
	}
	of, err := os.OpenFile(osPath, os.O_RDWR|os.O_APPEND, 0)
	if err != nil {
		t.Fatal(err)
	}
	defer of.Close()

	fs, _ := mem.NewFS()
	c, err := fs.OpenFile("f", os.O_CREATE|os.O_RDWR, 0666)
	if err != nil {
		t.Fatal(err)
	}
	_, _ = hackpadfs.WriteFile(c, []byte("hello"))
	_ = c.Close()
	mf, err := fs.OpenFile("f", os.O_RDWR|os.O_APPEND, 0)
	if err != nil {
		t.Fatal(err)
	}

	on, oerr := of.Write([]byte{})
	mn, merr := hackpadfs.WriteFile(mf, []byte{})
	if on != mn || (oerr == nil) != (merr == nil) {
		t.Fatalf("Write: os=(%d,%v) mem=(%d,%v)", on, oerr, mn, merr)
	}
	oo, _ := of.Seek(0, io.SeekCurrent)
	mo, _ := hackpadfs.SeekFile(mf, 0, io.SeekCurrent)
	if oo != mo {
		t.Errorf("offset after zero-length Write on O_APPEND handle: os=%d mem=%d", oo, mo)
	}
	ob, mb := make([]byte, 5), make([]byte, 5)
	on, _ = of.Read(ob)
	mn, _ = mf.Read(mb)
	if string(ob[:on]) != string(mb[:mn]) {
		t.Errorf("following Read: os=%q mem=%q", ob[:on], mb[:mn])
	}
}
