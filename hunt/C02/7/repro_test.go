package mem_test

import (
	"os"
	"testing"

	"github.com/hack-pad/hackpadfs"
	"github.com/hack-pad/hackpadfs/keyvalue/blob"
	"github.com/hack-pad/hackpadfs/mem"
)

// ReadBlobAt/ReadBlob (exported on every readable handle, including O_RDONLY ones) hand out a live view
// into the file's backing array rather than the bytes that were read:
//   - bytes "transferred" by an earlier read change when another handle writes later;
//   - storing into the returned blob changes the file, through a read-only handle.
func TestHuntReadBlobAliasesFile(t *testing.T) {
	fs, _ := mem.NewFS()
	w, err := fs.OpenFile("f", os.O_CREATE|os.O_RDWR, 0666)
	if err != nil {
		t.Fatal(err)
	}
	_, _ = hackpadfs.WriteFile(w, []byte("hello"))
	r, err := fs.OpenFile("f", os.O_RDONLY, 0)
	if err != nil {
		t.Fatal(err)
	}
	b, n, err := r.(blob.ReaderAt).ReadBlobAt(3, 0)
	if err != nil || n != 3 || string(b.Bytes()) != "hel" {
		t.Fatalf("ReadBlobAt = %q, %d, %v", b.Bytes(), n, err)
	}
	_, _ = hackpadfs.WriteAtFile(w, []byte("J"), 0)
	if string(b.Bytes()) != "hel" {
		t.Errorf("bytes read before the write now read %q, want \"hel\"", b.Bytes())
	}
	_, _ = blob.Set(b, blob.NewBytes([]byte("XY")), 0)
	got, _ := hackpadfs.ReadFile(fs, "f")
	if string(got) != "Jello" {
		t.Errorf("file contents changed through a read-only handle's read result: %q, want \"Jello\"", got)
	}
}
