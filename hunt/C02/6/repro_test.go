package mem_test

import (
	"os"
	"path/filepath"
	"testing"

	"github.com/hack-pad/hackpadfs"
	"github.com/hack-pad/hackpadfs/mem"
)

// A handle kept on a file that was removed must not affect a NEW file later created under the same name:
// the only handle call ever made on the new file is Write("new"), so its contents must be "new" (as with os).
// In the library a write through the stale handle re-publishes the OLD file's blob under the name,
// so the new file's contents silently become those of the removed file.
func TestHuntStaleHandleClobbersRecreatedFile(t *testing.T) {
	osPath := filepath.Join(t.TempDir(), "f")
	o1, err := os.OpenFile(osPath, os.O_CREATE|os.O_RDWR, 0666)
	if err != nil {
		t.Fatal(err)
	}
	defer o1.Close()
	_, _ = o1.Write([]byte("old"))
	_ = os.Remove(osPath)
	o2, err := os.OpenFile(osPath, os.O_CREATE|os.O_EXCL|os.O_RDWR, 0666)
	if err != nil {
		t.Fatal(err)
	}
	defer o2.Close()
	_, _ = o2.Write([]byte("new"))
	_, _ = o1.WriteAt([]byte("X"), 0)
	want, _ := os.ReadFile(osPath)

	fs, _ := mem.NewFS()
	m1, err := fs.OpenFile("f", os.O_CREATE|os.O_RDWR, 0666)
	if err != nil {
		t.Fatal(err)
	}
	_, _ = hackpadfs.WriteFile(m1, []byte("old"))
	if err := fs.Remove("f"); err != nil {
		t.Fatal(err)
	}
	m2, err := fs.OpenFile("f", os.O_CREATE|os.O_EXCL|os.O_RDWR, 0666)
	if err != nil {
		t.Fatal(err)
	}
	_, _ = hackpadfs.WriteFile(m2, []byte("new"))
	_, _ = hackpadfs.WriteAtFile(m1, []byte("X"), 0)
	got, _ := hackpadfs.ReadFile(fs, "f")
	if string(want) != string(got) {
		t.Errorf("contents of the new file: os=%q mem=%q", want, got)
	}

	// and the handle opened on the new file no longer sees what the name resolves to
	buf := make([]byte, 8)
	n, _ := hackpadfs.ReadAtFile(m2, buf, 0)
	if string(buf[:n]) != string(got) {
		t.Errorf("handle on the new file reads %q but ReadFile of the same name returns %q", buf[:n], got)
	}
}
