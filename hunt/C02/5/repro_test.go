package keyvalue_test

import (
	"context"
	"os"
	"strings"
	"testing"
	"time"

	"github.com/hack-pad/hackpadfs"
	"github.com/hack-pad/hackpadfs/keyvalue"
	"github.com/hack-pad/hackpadfs/keyvalue/blob"
)

// huntMapStore is a minimal keyvalue.Store following the documented FileRecord contract:
// Data() returns a copy of the stored contents, Size() the size at fetch time.
type huntMapStore struct {
	recs map[string]huntRec
}

type huntRec struct {
	data    []byte
	mode    hackpadfs.FileMode
	modTime time.Time
}

func (s *huntMapStore) Get(ctx context.Context, path string) (keyvalue.FileRecord, error) {
	rec, ok := s.recs[path]
	if !ok {
		return nil, hackpadfs.ErrNotExist
	}
	var getData func() (blob.Blob, error)
	var getDirNames func() ([]string, error)
	if rec.mode.IsDir() {
		getDirNames = func() ([]string, error) {
			var names []string
			prefix := path + "/"
			if path == "." {
				prefix = ""
			}
			for p := range s.recs {
				if p != "." && strings.HasPrefix(p, prefix) && !strings.Contains(p[len(prefix):], "/") {
					names = append(names, p[len(prefix):])
				}
			}
			return names, nil
		}
	} else {
		getData = func() (blob.Blob, error) {
			cur := s.recs[path]
			return blob.NewBytes(append([]byte(nil), cur.data...)), nil
		}
	}
	return keyvalue.NewBaseFileRecord(int64(len(rec.data)), rec.modTime, rec.mode, nil, getData, getDirNames), nil
}

func (s *huntMapStore) Set(ctx context.Context, path string, src keyvalue.FileRecord) error {
	if src == nil {
		delete(s.recs, path)
		return nil
	}
	rec := huntRec{mode: src.Mode(), modTime: src.ModTime()}
	if src.Mode().IsRegular() {
		data, err := src.Data()
		if err != nil {
			return err
		}
		rec.data = data.Bytes()
	}
	s.recs[path] = rec
	return nil
}

// Two handles on one file of a keyvalue.FS over a Store that follows the documented FileRecord contract
// (Data() returns a copy, Size() may be the size at fetch time): each handle works on a private snapshot,
// so a handle does not see writes made through another one, and the later writer silently undoes the earlier write.
func TestHuntStoreHandlesNotCoherent(t *testing.T) {
	fs, err := keyvalue.NewFS(&huntMapStore{recs: map[string]huntRec{}})
	if err != nil {
		t.Fatal(err)
	}
	c, err := fs.OpenFile("f", os.O_CREATE|os.O_RDWR, 0666)
	if err != nil {
		t.Fatal(err)
	}
	if _, err := hackpadfs.WriteFile(c, []byte("hello")); err != nil {
		t.Fatal(err)
	}
	_ = c.Close()

	a, err := fs.OpenFile("f", os.O_RDWR, 0)
	if err != nil {
		t.Fatal(err)
	}
	b, err := fs.OpenFile("f", os.O_RDWR, 0)
	if err != nil {
		t.Fatal(err)
	}
	buf := make([]byte, 2)
	_, _ = hackpadfs.ReadAtFile(a, buf, 0)
	_, _ = hackpadfs.ReadAtFile(b, buf, 0)

	if _, err := hackpadfs.WriteAtFile(a, []byte("HELLO WORLD"), 0); err != nil {
		t.Fatal(err)
	}
	// b must see the current contents and size
	big := make([]byte, 32)
	n, _ := hackpadfs.ReadAtFile(b, big, 0)
	if string(big[:n]) != "HELLO WORLD" {
		t.Errorf("ReadAt through second handle = %q, want \"HELLO WORLD\"", big[:n])
	}
	if info, err := b.Stat(); err != nil || info.Size() != 11 {
		t.Errorf("Stat through second handle: size %d, want 11", info.Size())
	}
	if end, _ := hackpadfs.SeekFile(b, 0, 2); end != 11 {
		t.Errorf("Seek(0, SeekEnd) through second handle = %d, want 11", end)
	}
	// a one-byte write through b must only change that byte
	if _, err := hackpadfs.WriteAtFile(b, []byte("j"), 0); err != nil {
		t.Fatal(err)
	}
	got, _ := hackpadfs.ReadFile(fs, "f")
	if string(got) != "jELLO WORLD" {
		t.Errorf("contents after a.WriteAt(\"HELLO WORLD\",0); b.WriteAt(\"j\",0) = %q, want \"jELLO WORLD\"", got)
	}
}
