package mem_test

import (
	"os"
	"path/filepath"
	"testing"

	"github.com/hack-pad/hackpadfs"
	"github.com/hack-pad/hackpadfs/mem"
)

// Zero-length transfers in the "wrong" direction succeed on an os.File (nothing is read or written, (0, nil)),
// but fail in the library: Read(empty) on an O_WRONLY handle and Write/WriteAt(empty) on an O_RDONLY handle.
func TestHuntZeroLengthWrongDirection(t *testing.T) {
	osPath := filepath.Join(t.TempDir(), "f")
	if err := os.WriteFile(osPath, []byte("hello"), 0666); err != nil {
		t.Fatal(err)
	}
	ow, err := os.OpenFile(osPath, os.O_WRONLY, 0)
	if err != nil {
		t.Fatal(err)
	}
	defer ow.Close()
	or, err := os.OpenFile(osPath, os.O_RDONLY, 0)
	if err != nil {
		t.Fatal(err)
	}
	defer or.Close()

	fs, _ := mem.NewFS()
	c, err := fs.OpenFile("f", os.O_CREATE|os.O_RDWR, 0666)
	if err != nil {
		t.Fatal(err)
	}
	_, _ = hackpadfs.WriteFile(c, []byte("hello"))
	mw, err := fs.OpenFile("f", os.O_WRONLY, 0)
	if err != nil {
		t.Fatal(err)
	}
	mr, err := fs.OpenFile("f", os.O_RDONLY, 0)
	if err != nil {
		t.Fatal(err)
	}

	on, oerr := ow.Read([]byte{})
	mn, merr := mw.Read([]byte{})
	if on != mn || (oerr == nil) != (merr == nil) {
		t.Errorf("Read(empty) on O_WRONLY handle: os=(%d,%v) mem=(%d,%v)", on, oerr, mn, merr)
	}
	on, oerr = or.WriteAt([]byte{}, 0)
	mn, merr = hackpadfs.WriteAtFile(mr, []byte{}, 0)
	if on != mn || (oerr == nil) != (merr == nil) {
		t.Errorf("WriteAt(empty, 0) on O_RDONLY handle: os=(%d,%v) mem=(%d,%v)", on, oerr, mn, merr)
	}
}
