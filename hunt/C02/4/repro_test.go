package mem_test

import (
	"io"
	"os"
	"path/filepath"
	"testing"

	"github.com/hack-pad/hackpadfs"
	"github.com/hack-pad/hackpadfs/mem"
)

// Truncate (or a Write/WriteAt at an offset) to a size no file can have fails with an error on an os.File
// (EFBIG / EINVAL) and leaves the file usable. The library panics inside blob.Bytes.Grow instead
// (and the panic escapes while the blob's mutex is held, so every later call on the file blocks forever).
func TestHuntHugeTruncatePanics(t *testing.T) {
	const huge = int64(1) << 62

	of, err := os.OpenFile(filepath.Join(t.TempDir(), "f"), os.O_CREATE|os.O_RDWR, 0666)
	if err != nil {
		t.Fatal(err)
	}
	defer of.Close()
	if err := of.Truncate(huge); err == nil {
		t.Skip("this OS file system accepts the size; nothing to compare")
	}
	if _, err := of.Seek(huge, io.SeekStart); err == nil {
		if _, err := of.Write([]byte("x")); err == nil {
			t.Skip("this OS file system accepts the offset; nothing to compare")
		}
	}

	fs, _ := mem.NewFS()
	f, err := fs.OpenFile("f", os.O_CREATE|os.O_RDWR, 0666)
	if err != nil {
		t.Fatal(err)
	}
	func() {
		defer func() {
			if r := recover(); r != nil {
				t.Errorf("Truncate(1<<62) panicked instead of returning an error: %v", r)
			}
		}()
		if err := hackpadfs.TruncateFile(f, huge); err == nil {
			t.Errorf("Truncate(1<<62) succeeded")
		}
	}()

	fs2, _ := mem.NewFS()
	g, err := fs2.OpenFile("g", os.O_CREATE|os.O_RDWR, 0666)
	if err != nil {
		t.Fatal(err)
	}
	func() {
		defer func() {
			if r := recover(); r != nil {
				t.Errorf("WriteAt(\"x\", 1<<62) panicked instead of returning an error: %v", r)
			}
		}()
		if _, err := hackpadfs.WriteAtFile(g, []byte("x"), huge); err == nil {
			t.Errorf("WriteAt at 1<<62 succeeded")
		}
	}()
}
