package mem_test

import (
	"io"
	"testing"

	"github.com/hack-pad/hackpadfs"
	"github.com/hack-pad/hackpadfs/mem"
)

// Reading a directory handle as bytes must fail (os: "read d: is a directory").
// The library reports a clean end-of-file instead, as if the directory were an empty regular file.
func TestHuntDirReadAsBytes(t *testing.T) {
	fs, err := mem.NewFS()
	if err != nil {
		t.Fatal(err)
	}
	if err := fs.Mkdir("d", 0777); err != nil {
		t.Fatal(err)
	}
	for _, name := range []string{".", "d"} {
		f, err := fs.Open(name)
		if err != nil {
			t.Fatal(err)
		}
		n, err := f.Read(make([]byte, 4))
		if err == nil || err == io.EOF {
			t.Errorf("%q: Read on a directory handle = (%d, %v), want a failure (not success, not io.EOF)", name, n, err)
		}
		n, err = hackpadfs.ReadAtFile(f, make([]byte, 4), 0)
		if err == nil || err == io.EOF {
			t.Errorf("%q: ReadAt on a directory handle = (%d, %v), want a failure (not success, not io.EOF)", name, n, err)
		}
		_ = f.Close()
	}
}
