package mem_test

import (
	"bytes"
	"io"
	"os"
	"path/filepath"
	"testing"

	"github.com/hack-pad/hackpadfs"
	"github.com/hack-pad/hackpadfs/mem"
)

// A zero-length WriteAt (or Write after Seek) beyond end of file must not change the file
// (POSIX: a zero-byte write to a regular file has no other results; os.File behaves so).
// The library zero-extends the file up to the given offset.
func TestHuntZeroLengthWriteGrowsFile(t *testing.T) {
	osPath := filepath.Join(t.TempDir(), "f")
	if err := os.WriteFile(osPath, []byte("he"), 0666); err != nil {
		t.Fatal(err)
	}
	of, err := os.OpenFile(osPath, os.O_RDWR, 0)
	if err != nil {
		t.Fatal(err)
	}
	defer of.Close()

	fs, _ := mem.NewFS()
	mf, err := fs.OpenFile("f", os.O_CREATE|os.O_RDWR, 0666)
	if err != nil {
		t.Fatal(err)
	}
	if _, err := hackpadfs.WriteFile(mf, []byte("he")); err != nil {
		t.Fatal(err)
	}

	// positional
	on, oerr := of.WriteAt([]byte{}, 20)
	mn, merr := hackpadfs.WriteAtFile(mf, []byte{}, 20)
	if on != mn || (oerr == nil) != (merr == nil) {
		t.Fatalf("WriteAt: os=(%d,%v) mem=(%d,%v)", on, oerr, mn, merr)
	}
	want, _ := os.ReadFile(osPath)
	got, _ := hackpadfs.ReadFile(fs, "f")
	if !bytes.Equal(want, got) {
		t.Errorf("after WriteAt(empty, 20): os file = %q, mem file = %q", want, got)
	}

	// sequential
	_ = hackpadfs.TruncateFile(mf, 2)
	_, _ = of.Seek(10, io.SeekStart)
	_, _ = hackpadfs.SeekFile(mf, 10, io.SeekStart)
	_, _ = of.Write(nil)
	_, _ = hackpadfs.WriteFile(mf, nil)
	want, _ = os.ReadFile(osPath)
	got, _ = hackpadfs.ReadFile(fs, "f")
	if !bytes.Equal(want, got) {
		t.Errorf("after Seek(10)+Write(empty): os file = %q, mem file = %q", want, got)
	}
}
