#!/bin/bash
# Builds the verifier from files on disk only (vendored x/tools).
set -e
cd "$(dirname "$0")/govc"
export GOFLAGS=-mod=vendor GOPROXY=off GOSUMDB=off GOTOOLCHAIN=local
mkdir -p ../bin
go build -o ../bin/govc .
